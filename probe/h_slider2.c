#include "ll2c_rt.h"
uint64_t _ZN6engine13slider_attackILNS_9PieceKindE4EEEmNS_6SquareEm(uint32_t, uint64_t);
uint64_t _ZN6engine13slider_attackILNS_9PieceKindE3EEEmNS_6SquareEm(uint32_t, uint64_t);
uint64_t nondet_u64(void);
uint32_t nondet_u32(void);
/* geometric spec: walk each ray until first blocker inclusive */
static uint64_t spec(int sq, uint64_t occ, int rook) {
  static const int dr[8] = {1,-1,0,0, 1,1,-1,-1}, df[8] = {0,0,1,-1, 1,-1,1,-1};
  uint64_t a = 0;
  for (int d = rook ? 0 : 4; d < (rook ? 4 : 8); d++) {
    int r = sq >> 3, f = sq & 7;
    for (int k = 0; k < 7; k++) {
      r += dr[d]; f += df[d];
      if (r < 0 || r > 7 || f < 0 || f > 7) break;
      uint64_t b = 1ULL << (r * 8 + f);
      a |= b;
      if (occ & b) break;
    }
  }
  return a;
}

static void check(uint32_t sq, int rook) {
  uint64_t occ = nondet_u64();
  uint64_t got = rook ? _ZN6engine13slider_attackILNS_9PieceKindE4EEEmNS_6SquareEm(sq, occ) : _ZN6engine13slider_attackILNS_9PieceKindE3EEEmNS_6SquareEm(sq, occ);
  uint64_t want = spec(sq, occ, rook);
#ifdef WITNESS
  __CPROVER_assert(0, "witness: reachable");
#else
  __CPROVER_assert(got == want, "slider attack equals ray walk");
#endif
}
void h_rook_0(void) { check(0, 1); }
void h_bishop_0(void) { check(0, 0); }
void h_rook_1(void) { check(1, 1); }
void h_bishop_1(void) { check(1, 0); }
void h_rook_2(void) { check(2, 1); }
void h_bishop_2(void) { check(2, 0); }
void h_rook_3(void) { check(3, 1); }
void h_bishop_3(void) { check(3, 0); }
void h_rook_4(void) { check(4, 1); }
void h_bishop_4(void) { check(4, 0); }
void h_rook_5(void) { check(5, 1); }
void h_bishop_5(void) { check(5, 0); }
void h_rook_6(void) { check(6, 1); }
void h_bishop_6(void) { check(6, 0); }
void h_rook_7(void) { check(7, 1); }
void h_bishop_7(void) { check(7, 0); }
void h_rook_8(void) { check(8, 1); }
void h_bishop_8(void) { check(8, 0); }
void h_rook_9(void) { check(9, 1); }
void h_bishop_9(void) { check(9, 0); }
void h_rook_10(void) { check(10, 1); }
void h_bishop_10(void) { check(10, 0); }
void h_rook_11(void) { check(11, 1); }
void h_bishop_11(void) { check(11, 0); }
void h_rook_12(void) { check(12, 1); }
void h_bishop_12(void) { check(12, 0); }
void h_rook_13(void) { check(13, 1); }
void h_bishop_13(void) { check(13, 0); }
void h_rook_14(void) { check(14, 1); }
void h_bishop_14(void) { check(14, 0); }
void h_rook_15(void) { check(15, 1); }
void h_bishop_15(void) { check(15, 0); }
void h_rook_16(void) { check(16, 1); }
void h_bishop_16(void) { check(16, 0); }
void h_rook_17(void) { check(17, 1); }
void h_bishop_17(void) { check(17, 0); }
void h_rook_18(void) { check(18, 1); }
void h_bishop_18(void) { check(18, 0); }
void h_rook_19(void) { check(19, 1); }
void h_bishop_19(void) { check(19, 0); }
void h_rook_20(void) { check(20, 1); }
void h_bishop_20(void) { check(20, 0); }
void h_rook_21(void) { check(21, 1); }
void h_bishop_21(void) { check(21, 0); }
void h_rook_22(void) { check(22, 1); }
void h_bishop_22(void) { check(22, 0); }
void h_rook_23(void) { check(23, 1); }
void h_bishop_23(void) { check(23, 0); }
void h_rook_24(void) { check(24, 1); }
void h_bishop_24(void) { check(24, 0); }
void h_rook_25(void) { check(25, 1); }
void h_bishop_25(void) { check(25, 0); }
void h_rook_26(void) { check(26, 1); }
void h_bishop_26(void) { check(26, 0); }
void h_rook_27(void) { check(27, 1); }
void h_bishop_27(void) { check(27, 0); }
void h_rook_28(void) { check(28, 1); }
void h_bishop_28(void) { check(28, 0); }
void h_rook_29(void) { check(29, 1); }
void h_bishop_29(void) { check(29, 0); }
void h_rook_30(void) { check(30, 1); }
void h_bishop_30(void) { check(30, 0); }
void h_rook_31(void) { check(31, 1); }
void h_bishop_31(void) { check(31, 0); }
void h_rook_32(void) { check(32, 1); }
void h_bishop_32(void) { check(32, 0); }
void h_rook_33(void) { check(33, 1); }
void h_bishop_33(void) { check(33, 0); }
void h_rook_34(void) { check(34, 1); }
void h_bishop_34(void) { check(34, 0); }
void h_rook_35(void) { check(35, 1); }
void h_bishop_35(void) { check(35, 0); }
void h_rook_36(void) { check(36, 1); }
void h_bishop_36(void) { check(36, 0); }
void h_rook_37(void) { check(37, 1); }
void h_bishop_37(void) { check(37, 0); }
void h_rook_38(void) { check(38, 1); }
void h_bishop_38(void) { check(38, 0); }
void h_rook_39(void) { check(39, 1); }
void h_bishop_39(void) { check(39, 0); }
void h_rook_40(void) { check(40, 1); }
void h_bishop_40(void) { check(40, 0); }
void h_rook_41(void) { check(41, 1); }
void h_bishop_41(void) { check(41, 0); }
void h_rook_42(void) { check(42, 1); }
void h_bishop_42(void) { check(42, 0); }
void h_rook_43(void) { check(43, 1); }
void h_bishop_43(void) { check(43, 0); }
void h_rook_44(void) { check(44, 1); }
void h_bishop_44(void) { check(44, 0); }
void h_rook_45(void) { check(45, 1); }
void h_bishop_45(void) { check(45, 0); }
void h_rook_46(void) { check(46, 1); }
void h_bishop_46(void) { check(46, 0); }
void h_rook_47(void) { check(47, 1); }
void h_bishop_47(void) { check(47, 0); }
void h_rook_48(void) { check(48, 1); }
void h_bishop_48(void) { check(48, 0); }
void h_rook_49(void) { check(49, 1); }
void h_bishop_49(void) { check(49, 0); }
void h_rook_50(void) { check(50, 1); }
void h_bishop_50(void) { check(50, 0); }
void h_rook_51(void) { check(51, 1); }
void h_bishop_51(void) { check(51, 0); }
void h_rook_52(void) { check(52, 1); }
void h_bishop_52(void) { check(52, 0); }
void h_rook_53(void) { check(53, 1); }
void h_bishop_53(void) { check(53, 0); }
void h_rook_54(void) { check(54, 1); }
void h_bishop_54(void) { check(54, 0); }
void h_rook_55(void) { check(55, 1); }
void h_bishop_55(void) { check(55, 0); }
void h_rook_56(void) { check(56, 1); }
void h_bishop_56(void) { check(56, 0); }
void h_rook_57(void) { check(57, 1); }
void h_bishop_57(void) { check(57, 0); }
void h_rook_58(void) { check(58, 1); }
void h_bishop_58(void) { check(58, 0); }
void h_rook_59(void) { check(59, 1); }
void h_bishop_59(void) { check(59, 0); }
void h_rook_60(void) { check(60, 1); }
void h_bishop_60(void) { check(60, 0); }
void h_rook_61(void) { check(61, 1); }
void h_bishop_61(void) { check(61, 0); }
void h_rook_62(void) { check(62, 1); }
void h_bishop_62(void) { check(62, 0); }
void h_rook_63(void) { check(63, 1); }
void h_bishop_63(void) { check(63, 0); }
void p_lookup0(void) { uint64_t occ = nondet_u64(); uint64_t got = _ZN6engine13slider_attackILNS_9PieceKindE4EEEmNS_6SquareEm(0, occ); __CPROVER_assert(got != 12345, "x"); }
void p_spec0(void) { uint64_t occ = nondet_u64(); uint64_t w = spec(0, occ, 1); __CPROVER_assert(w != 12345, "x"); }
void p_lookup1(void) { uint64_t occ = nondet_u64(); uint64_t got = _ZN6engine13slider_attackILNS_9PieceKindE4EEEmNS_6SquareEm(1, occ); __CPROVER_assert(got != 12345, "x"); }
