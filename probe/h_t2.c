#include "ll2c_rt.h"
#include "eng_decl.h"
typedef struct S_class_engine__Position Pos;
uint32_t nondet_u32(void);
void t2(void) {
  Pos p; memset(&p, 0, sizeof p);
  uint32_t a = nondet_u32(), b = nondet_u32(); __CPROVER_assume(a < 64 && b < 64 && a != b);
  p.f3[a] = 6; p.f4[6][0] = a; p.f5[6] = 1;
  p.f3[b] = 12; p.f4[12][0] = b; p.f5[12] = 1;
  p.f9 = 64;
  _ZN6engine7HashKey4initERKNS_8PositionE(&p.f10, &p);
  _ZN6engine7HashKey4initERKNS_8PositionE(&p.f10, &p);
  _ZN6engine7HashKey4initERKNS_8PositionE(&p.f10, &p);
}
