#include "h_c01.c"
uint64_t _ZN6engine8checkersILNS_5ColorE0EEEmRKNS_8PositionE(Pos*);
uint64_t _ZN6engine17forbidden_squaresILNS_5ColorE0EEEmRKNS_8PositionE(Pos*);
uint32_t *_ZN6engine13generate_pinsILNS_5ColorE0EEEPjRKNS_8PositionES2_Pm(Pos*, uint32_t*, uint64_t*);
uint32_t *_ZN6engine19generate_king_movesENS_6SquareEmPj(uint32_t, uint64_t, uint32_t*);
uint32_t *_ZN6engine20generate_piece_movesILNS_9PieceKindE4EEEPjNS_6SquareERKNS_8PositionEmS2_(uint32_t, Pos*, uint64_t, uint32_t*);
void p_build(void) { build(); __CPROVER_assert(P.f5[6] == 2, "x"); }
void p_checkers(void) { build(); uint64_t c = _ZN6engine8checkersILNS_5ColorE0EEEmRKNS_8PositionE(&P); __CPROVER_assert(c == 12345, "x"); }
void p_forbidden(void) { build(); uint64_t c = _ZN6engine17forbidden_squaresILNS_5ColorE0EEEmRKNS_8PositionE(&P); __CPROVER_assert(c == 12345, "x"); }
void p_pins(void) { build(); uint64_t pinned = 0; uint32_t pins[16]; uint32_t *e = _ZN6engine13generate_pinsILNS_5ColorE0EEEPjRKNS_8PositionES2_Pm(&P, pins, &pinned); __CPROVER_assert(pinned == 12345, "x"); }
void p_king(void) { build(); uint32_t *e = _ZN6engine19generate_king_movesENS_6SquareEmPj(P.f4[6][0], nondet_u64(), MV); __CPROVER_assert(e == MV, "x"); }
void p_rook(void) { build(); uint32_t *e = _ZN6engine20generate_piece_movesILNS_9PieceKindE4EEEPjNS_6SquareERKNS_8PositionEmS2_(P.f4[4][0], &P, nondet_u64(), MV); __CPROVER_assert(e == MV, "x"); }
