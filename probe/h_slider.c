#include "ll2c_rt.h"
uint64_t _ZN6engine13slider_attackILNS_9PieceKindE4EEEmNS_6SquareEm(uint32_t, uint64_t);
uint64_t _ZN6engine13slider_attackILNS_9PieceKindE3EEEmNS_6SquareEm(uint32_t, uint64_t);
uint64_t nondet_u64(void);
uint32_t nondet_u32(void);
/* geometric spec: walk each ray until first blocker inclusive */
static uint64_t spec(int sq, uint64_t occ, int rook) {
  static const int dr[8] = {1,-1,0,0, 1,1,-1,-1}, df[8] = {0,0,1,-1, 1,-1,1,-1};
  uint64_t a = 0;
  for (int d = rook ? 0 : 4; d < (rook ? 4 : 8); d++) {
    int r = sq >> 3, f = sq & 7;
    for (int k = 0; k < 7; k++) {
      r += dr[d]; f += df[d];
      if (r < 0 || r > 7 || f < 0 || f > 7) break;
      uint64_t b = 1ULL << (r * 8 + f);
      a |= b;
      if (occ & b) break;
    }
  }
  return a;
}
#ifndef SQ
#define SQ nondet_sq
#endif
void harness(void) {
  uint32_t nondet_sq = nondet_u32();
  __CPROVER_assume(nondet_sq < 64);
  uint32_t sq = SQ;
  uint64_t occ = nondet_u64();
#ifdef ROOK
  uint64_t got = _ZN6engine13slider_attackILNS_9PieceKindE4EEEmNS_6SquareEm(sq, occ);
  uint64_t want = spec(sq, occ, 1);
#else
  uint64_t got = _ZN6engine13slider_attackILNS_9PieceKindE3EEEmNS_6SquareEm(sq, occ);
  uint64_t want = spec(sq, occ, 0);
#endif
#ifdef WITNESS
  __CPROVER_assert(0, "witness: reachable");
#else
  __CPROVER_assert(got == want, "slider attack equals ray walk");
#endif
}
