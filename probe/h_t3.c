#define main_harness 1
#include "h_pos.c"
void t3(void) {
  Pos p; build(&p);
  __CPROVER_assert(p.f5[6] == 1, "one white king");
}
void t4(void) {
  Pos p; build(&p);
  uint32_t *end = _ZN6engine14generate_movesERKNS_8PositionENS_5ColorEPj(&p, p.f0, MV);
  __CPROVER_assert(end - MV <= 60, "move count bound");
}
