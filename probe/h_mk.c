#include "h_c01.c"
static void rnd_zobrist(void) {
  for (int a = 0; a < 13; a++) for (int b = 0; b < 64; b++) _ZN6engine10PIECE_HASHE[a][b] = nondet_u64();
  for (int a = 0; a < 16; a++) _ZN6engine13CASTLING_HASHE[a] = nondet_u64();
  for (int a = 0; a < 8; a++) _ZN6engine14ENPASSANT_HASHE[a] = nondet_u64();
  _ZN6engine9SIDE_HASHE = nondet_u64();
}
static int same_set(const uint32_t *a, const uint32_t *b, uint32_t n) {
  for (uint32_t i = 0; i < 10; i++) if (i < n) {
    int found = 0;
    for (uint32_t j = 0; j < 10; j++) if (j < n && a[i] == b[j]) found = 1;
    if (!found) return 0;
  }
  return 1;
}
void h_make(void) {
  build(); rnd_zobrist();
  P.f1 = nondet_u8(); __CPROVER_assume(P.f1 <= 150);
  P.f2 = nondet_u32(); __CPROVER_assume(P.f2 >= 1 && P.f2 < 100000);
  P.f11 = nondet_u32(); __CPROVER_assume(P.f11 >= 1 && P.f11 < 800);
  _ZN6engine7HashKey4initERKNS_8PositionE(&P.f10, &P);
  SMove m; m.from = nondet_u8(); m.to = nondet_u8(); m.promo = nondet_u8(); m.castle = nondet_u8();
  __CPROVER_assume(m.from < 64 && m.to < 64 && m.promo < 8 && m.castle < 3);
  __CPROVER_assume(s_legal(&S, m));
  static Pos Q; Q = P;
  uint32_t mi = _ZN6engine8Position7do_moveEj(&Q, enc(m));
#ifdef WITNESS
  __CPROVER_assert(0, "witness");
#endif
  SBoard T; s_apply(&S, m, &T);
  /* C02: placement, side, rights, ep, clocks */
  for (int s = 0; s < 64; s++) __CPROVER_assert(Q.f3[s] == T.b[s], "C02 placement");
  __CPROVER_assert(Q.f0 == T.side, "C02 side");
  __CPROVER_assert(Q.f8 == T.cr, "C02 castling rights");
  __CPROVER_assert(Q.f9 == T.ep, "C02 en-passant square");
  int pawn = !m.castle && S_KIND(S.b[m.from]) == 1, capt = !m.castle && S.b[m.to] != 0;
  __CPROVER_assert(Q.f1 == ((pawn || capt) ? 0 : P.f1 + 1), "C02 half-move clock");
  __CPROVER_assert(Q.f2 == P.f2 + 1, "C02 ply counter");
  /* representation invariant of the result */
  uint64_t kb[7] = {0}, cb[2] = {0}; uint32_t cnt[13] = {0};
  for (int s = 0; s < 64; s++) if (T.b[s]) { kb[S_KIND(T.b[s])] |= 1ULL << s; cb[S_COLOR(T.b[s])] |= 1ULL << s; cnt[T.b[s]]++; }
  for (int a = 1; a < 7; a++) __CPROVER_assert(Q.f6[a] == kb[a], "RI kind bitboards");
  __CPROVER_assert(Q.f7[0] == cb[0] && Q.f7[1] == cb[1], "RI colour bitboards");
  for (int a = 1; a < 13; a++) {
    __CPROVER_assert(Q.f5[a] == cnt[a], "RI piece counts");
    for (uint32_t i = 0; i < 10; i++) if (i < Q.f5[a]) __CPROVER_assert(Q.f4[a][i] < 64 && T.b[Q.f4[a][i]] == a, "RI piece list entries");
    for (uint32_t i = 0; i < 10; i++) for (uint32_t j = 0; j < i; j++) if (i < Q.f5[a]) __CPROVER_assert(Q.f4[a][i] != Q.f4[a][j], "RI piece list distinct");
  }
  /* C04: incremental keys equal keys from scratch */
  struct S_class_engine__HashKey hk = {0};
  _ZN6engine7HashKey4initERKNS_8PositionE(&hk, &Q);
  __CPROVER_assert(hk.f0 == Q.f10.f0 && hk.f1 == Q.f10.f1 && hk.f2 == Q.f10.f2 && hk.f3 == Q.f10.f3 && hk.f4 == Q.f10.f4, "C04 incremental key equals scratch key");
  __CPROVER_assert(Q.f11 == P.f11 + 1 && Q.f12[P.f11] == _ZNK6engine7HashKey7get_keyEv(&Q.f10), "C07 history append");
  /* C03: undo restores */
  _ZN6engine8Position9undo_moveEjj(&Q, enc(m), mi);
  __CPROVER_assert(Q.f0 == P.f0 && Q.f1 == P.f1 && Q.f2 == P.f2 && Q.f8 == P.f8 && Q.f9 == P.f9 && Q.f11 == P.f11, "C03 scalars restored");
  for (int s = 0; s < 64; s++) __CPROVER_assert(Q.f3[s] == P.f3[s], "C03 board restored");
  for (int a = 0; a < 7; a++) __CPROVER_assert(Q.f6[a] == P.f6[a], "C03 kind bb restored");
  __CPROVER_assert(Q.f7[0] == P.f7[0] && Q.f7[1] == P.f7[1], "C03 colour bb restored");
  for (int a = 1; a < 13; a++) { __CPROVER_assert(Q.f5[a] == P.f5[a], "C03 counts restored"); __CPROVER_assert(same_set(Q.f4[a], P.f4[a], P.f5[a]), "C03 piece lists restored as sets"); }
  __CPROVER_assert(Q.f10.f0 == P.f10.f0 && Q.f10.f1 == P.f10.f1 && Q.f10.f2 == P.f10.f2 && Q.f10.f3 == P.f10.f3 && Q.f10.f4 == P.f10.f4, "C03 keys restored");
}
