#include "ll2c_rt.h"
#include "eng_decl.h"
#include "chess_spec.h"
typedef struct S_class_engine__Position Pos;
uint64_t nondet_u64(void); uint32_t nondet_u32(void); uint8_t nondet_u8(void);
#ifndef K
#define K 4
#endif
static uint64_t fill7(uint64_t g, uint64_t pro, int sh, uint64_t wrap) {
  /* dumb7fill occluded fill + one more step = attacked squares in one direction */
  uint64_t a = 0;
  for (int i = 0; i < 7; i++) {
    g = (sh > 0 ? (g << sh) : (g >> -sh)) & wrap;
    a |= g;
    g &= pro;
  }
  return a;
}
#define NOT_A 0xfefefefefefefefeULL
#define NOT_H 0x7f7f7f7f7f7f7f7fULL
static uint64_t spec_slider(uint32_t sq, uint64_t occ, int rook, int bishop) {
  uint64_t s = 1ULL << sq, e = ~occ, a = 0;
  if (rook)   a |= fill7(s, e, 8, ~0ULL) | fill7(s, e, -8, ~0ULL) | fill7(s, e, 1, NOT_A) | fill7(s, e, -1, NOT_H);
  if (bishop) a |= fill7(s, e, 9, NOT_A) | fill7(s, e, 7, NOT_H) | fill7(s, e, -7, NOT_A) | fill7(s, e, -9, NOT_H);
  return a;
}
uint64_t _ZN6engine13slider_attackILNS_9PieceKindE3EEEmNS_6SquareEm(uint32_t sq, uint64_t occ) { return spec_slider(sq, occ, 0, 1); }
uint64_t _ZN6engine13slider_attackILNS_9PieceKindE4EEEmNS_6SquareEm(uint32_t sq, uint64_t occ) { return spec_slider(sq, occ, 1, 0); }
uint64_t _ZN6engine13slider_attackILNS_9PieceKindE5EEEmNS_6SquareEm(uint32_t sq, uint64_t occ) { return spec_slider(sq, occ, 1, 1); }

static Pos P; static SBoard S;
static void build(void) {
  static const uint32_t mat[] = {6, 12, MATERIAL};
  for (int i = 0; i < 64; i++) S.b[i] = 0;
  for (int i = 0; i < K; i++) {
    uint32_t pc = mat[i], sq = nondet_u32();
    __CPROVER_assume(sq < 64);
#ifdef WK
    if (i == 0) sq = WK;
#endif
#ifdef BK
    if (i == 1) sq = BK;
#endif
    __CPROVER_assume(P.f3[sq] == 0);
    if (pc == 1 || pc == 7) __CPROVER_assume(sq >= 8 && sq < 56);
    P.f3[sq] = pc; S.b[sq] = pc;
    P.f4[pc][P.f5[pc]] = sq; P.f5[pc]++;
    P.f6[(pc - 1) % 6 + 1] |= 1ULL << sq;
    P.f7[pc > 6] |= 1ULL << sq;
  }
  P.f0 = SIDE; S.side = SIDE;
  uint32_t cr = nondet_u32() & 15;
  if (cr & 1) __CPROVER_assume(P.f3[4] == 6 && P.f3[7] == 4);
  if (cr & 2) __CPROVER_assume(P.f3[4] == 6 && P.f3[0] == 4);
  if (cr & 4) __CPROVER_assume(P.f3[60] == 12 && P.f3[63] == 10);
  if (cr & 8) __CPROVER_assume(P.f3[60] == 12 && P.f3[56] == 10);
  P.f8 = cr; S.cr = cr;
  uint32_t ep = nondet_u32();
  if (ep != 64) {
    __CPROVER_assume(ep < 64);
    if (SIDE == 0) __CPROVER_assume((ep >> 3) == 5 && P.f3[ep - 8] == 7 && P.f3[ep] == 0 && P.f3[ep + 8] == 0);
    else           __CPROVER_assume((ep >> 3) == 2 && P.f3[ep + 8] == 1 && P.f3[ep] == 0 && P.f3[ep - 8] == 0);
  }
  P.f9 = ep; S.ep = ep;
  P.f11 = 1;
  /* retro-legality: kings not adjacent/side not to move not in check; pre-push position legal */
  int oks = s_king_sq(&S, 1 - SIDE);
  __CPROVER_assume(!s_attacked(&S, oks, SIDE));
  if (ep != 64) {
    SBoard B = S;
    int cur = SIDE == 0 ? ep - 8 : ep + 8, org = SIDE == 0 ? ep + 8 : ep - 8;
    B.b[org] = B.b[cur]; B.b[cur] = 0;
    __CPROVER_assume(!s_attacked(&B, s_king_sq(&B, SIDE), 1 - SIDE));
  }
}
static uint32_t MV[64];
static uint32_t enc(SMove m) { return m.castle ? ((uint32_t)m.castle << 15) : ((uint32_t)m.promo << 12 | (uint32_t)m.to << 6 | m.from); }
static SMove dec(uint32_t v) { SMove m; m.castle = (v >> 15) & 3; m.from = v & 63; m.to = (v >> 6) & 63; m.promo = (v >> 12) & 7; return m; }
void h_sound(void) {   /* every generated move is legal, canonical and unique */
  build();
  uint32_t *end = _ZN6engine14generate_movesERKNS_8PositionENS_5ColorEPj(&P, SIDE, MV);
  uint32_t n = end - MV;
  uint32_t i = nondet_u32(), j = nondet_u32();
  __CPROVER_assume(i < n && j < i);
#ifdef WITNESS
  __CPROVER_assert(0, "witness");
#endif
  uint32_t v = MV[i];
  __CPROVER_assert(v < (1u << 17), "no stray bits");
  SMove m = dec(v);
  __CPROVER_assert(enc(m) == v, "canonical encoding");
  __CPROVER_assert(s_legal(&S, m), "C01 generated move is legal");
  __CPROVER_assert(MV[j] != v, "C01 no duplicates");
}
void h_complete(void) {  /* every legal move is generated */
  build();
  uint32_t *end = _ZN6engine14generate_movesERKNS_8PositionENS_5ColorEPj(&P, SIDE, MV);
  uint32_t n = end - MV;
  SMove m; m.from = nondet_u8(); m.to = nondet_u8(); m.promo = nondet_u8(); m.castle = nondet_u8();
  __CPROVER_assume(m.from < 64 && m.to < 64 && m.promo < 8 && m.castle < 3);
  __CPROVER_assume(s_legal(&S, m));
#ifdef WITNESS
  __CPROVER_assert(0, "witness");
#endif
  uint32_t v = enc(m);
  int found = 0;
  for (uint32_t i = 0; i < 64; i++) if (i < n && MV[i] == v) found = 1;
  __CPROVER_assert(n <= 64, "list fits probe buffer");
  __CPROVER_assert(found, "C01 legal move is generated");
}
