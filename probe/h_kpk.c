#include "eg.h"
typedef struct S_class_engine__Position Pos;
uint32_t nondet_u32(void);
static Pos A, B;
static void put(Pos *p, uint32_t pc, uint32_t sq) {
  p->f3[sq] = pc; p->f4[pc][p->f5[pc]] = sq; p->f5[pc]++;
  p->f6[(pc - 1) % 6 + 1] |= 1ULL << sq; p->f7[pc > 6] |= 1ULL << sq;
}
void h_kpk_sym(void) {
  uint32_t wk = nondet_u32(), wp = nondet_u32(), bk = nondet_u32(), stm = nondet_u32() & 1;
  __CPROVER_assume(wk < 64 && bk < 64 && wp >= 8 && wp < 56 && wk != wp && wk != bk && bk != wp);
  put(&A, 6, wk); put(&A, 1, wp); put(&A, 12, bk); A.f0 = stm; A.f9 = 64;
  /* mirror: ranks flipped (sq ^ 56), colours swapped, side swapped */
  put(&B, 12, wk ^ 56); put(&B, 7, wp ^ 56); put(&B, 6, bk ^ 56); B.f0 = 1 - stm; B.f9 = 64;
  struct S_class_engine__endgame__EndgameBase W = {0, 0, 1, 6, 12}, Bl = {0, 1, 0, 12, 6};
  int64_t a = (int64_t)_ZNK6engine7endgame12_GLOBAL__N_17EndgameILNS0_11EndgameTypeE0EE15strongSideScoreERKNS_8PositionE((void*)&W, &A);
  int64_t b = (int64_t)_ZNK6engine7endgame12_GLOBAL__N_17EndgameILNS0_11EndgameTypeE0EE15strongSideScoreERKNS_8PositionE((void*)&Bl, &B);
#ifdef WITNESS
  __CPROVER_assert(0, "witness");
#endif
  __CPROVER_assert(a == b, "C13 KPK strong-side score is colour symmetric");
}
