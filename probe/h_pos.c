#include "ll2c_rt.h"
#include "eng_decl.h"
typedef struct S_class_engine__Position Pos;
uint64_t nondet_u64(void); uint32_t nondet_u32(void); uint8_t nondet_u8(void);
#ifndef K
#define K 4
#endif
#ifndef HIST
#define HIST 4
#endif
/* ray-walk contract for slider_attack<> (proved equal to the table lookup by the C11 check) */
static uint64_t spec_slider(int sq, uint64_t occ, int rook, int bishop) {
  static const int dr[8] = {1,-1,0,0, 1,1,-1,-1}, df[8] = {0,0,1,-1, 1,-1,1,-1};
  uint64_t a = 0;
  for (int d = 0; d < 8; d++) {
    if (d < 4 && !rook) continue;
    if (d >= 4 && !bishop) continue;
    int r = sq >> 3, f = sq & 7;
    for (int k = 0; k < 7; k++) {
      r += dr[d]; f += df[d];
      if (r < 0 || r > 7 || f < 0 || f > 7) break;
      uint64_t b = 1ULL << (r * 8 + f);
      a |= b;
      if (occ & b) break;
    }
  }
  return a;
}
uint64_t _ZN6engine13slider_attackILNS_9PieceKindE3EEEmNS_6SquareEm(uint32_t sq, uint64_t occ) { return spec_slider(sq, occ, 0, 1); }
uint64_t _ZN6engine13slider_attackILNS_9PieceKindE4EEEmNS_6SquareEm(uint32_t sq, uint64_t occ) { return spec_slider(sq, occ, 1, 0); }
uint64_t _ZN6engine13slider_attackILNS_9PieceKindE5EEEmNS_6SquareEm(uint32_t sq, uint64_t occ) { return spec_slider(sq, occ, 1, 1); }

static void build(Pos *p) {
  memset(p, 0, sizeof *p);
  /* kings first, then K-2 arbitrary non-king pieces */
  for (int i = 0; i < K; i++) {
    uint32_t pc = nondet_u32(), sq = nondet_u32();
    __CPROVER_assume(sq < 64);
#ifdef MATERIAL
    static const uint32_t mat[] = {6, 12, MATERIAL};
    pc = mat[i];
#else
    if (i == 0) pc = 6; else if (i == 1) pc = 12;
    else __CPROVER_assume(pc >= 1 && pc <= 12 && pc != 6 && pc != 12);
#endif
    __CPROVER_assume(p->f3[sq] == 0);
    if (pc == 1 || pc == 7) __CPROVER_assume(sq >= 8 && sq < 56);
    p->f3[sq] = pc;
    p->f4[pc][p->f5[pc]] = sq; p->f5[pc]++;
    p->f6[(pc - 1) % 6 + 1] |= 1ULL << sq;
    p->f7[pc > 6] |= 1ULL << sq;
  }
#ifdef SIDE
  p->f0 = SIDE;
#else
  p->f0 = nondet_u32() & 1;
#endif
  p->f1 = nondet_u8(); __CPROVER_assume(p->f1 <= 150);
  p->f2 = nondet_u32(); __CPROVER_assume(p->f2 >= 1 && p->f2 < 100000);
  /* castling rights consistent with king/rook home squares */
  uint32_t cr = nondet_u32() & 15;
  if (cr & 1) __CPROVER_assume(p->f3[4] == 6 && p->f3[7] == 4);
  if (cr & 2) __CPROVER_assume(p->f3[4] == 6 && p->f3[0] == 4);
  if (cr & 4) __CPROVER_assume(p->f3[60] == 12 && p->f3[63] == 10);
  if (cr & 8) __CPROVER_assume(p->f3[60] == 12 && p->f3[56] == 10);
  p->f8 = cr;
  /* en passant square: none, or behind an enemy pawn that just double-pushed */
  uint32_t ep = nondet_u32();
  if (ep != 64) {
    __CPROVER_assume(ep < 64);
    if (p->f0 == 0) __CPROVER_assume((ep >> 3) == 5 && p->f3[ep - 8] == 7 && p->f3[ep] == 0 && p->f3[ep + 8] == 0);
    else            __CPROVER_assume((ep >> 3) == 2 && p->f3[ep + 8] == 1 && p->f3[ep] == 0 && p->f3[ep - 8] == 0);
  }
  p->f9 = ep;
  /* history */
  uint32_t hc = nondet_u32(); __CPROVER_assume(hc >= 1 && hc <= HIST);
  p->f11 = hc;
  for (int i = 0; i < HIST; i++) p->f12[i] = nondet_u64();
  /* key from scratch (real HashKey::init on zeroed key) */
  _ZN6engine7HashKey4initERKNS_8PositionE(&p->f10, p);
  p->f12[hc - 1] = _ZNK6engine7HashKey7get_keyEv(&p->f10);
}
static uint32_t MV[256];
static int same_set(const uint32_t *a, const uint32_t *b, uint32_t n) {
  for (uint32_t i = 0; i < 10; i++) if (i < n) {
    int found = 0;
    for (uint32_t j = 0; j < 10; j++) if (j < n && a[i] == b[j]) found = 1;
    if (!found) return 0;
  }
  return 1;
}
void h_do_undo(void) {
  Pos p; build(&p);
  /* Zobrist tables are per-process random: leave them fully nondeterministic */
  for (int a = 0; a < 13; a++) for (int b = 0; b < 64; b++) _ZN6engine10PIECE_HASHE[a][b] = nondet_u64();
  for (int a = 0; a < 16; a++) _ZN6engine13CASTLING_HASHE[a] = nondet_u64();
  for (int a = 0; a < 8; a++) _ZN6engine14ENPASSANT_HASHE[a] = nondet_u64();
  _ZN6engine9SIDE_HASHE = nondet_u64();
  memset(&p.f10, 0, sizeof p.f10);
  _ZN6engine7HashKey4initERKNS_8PositionE(&p.f10, &p);
  p.f12[p.f11 - 1] = _ZNK6engine7HashKey7get_keyEv(&p.f10);
  /* side not to move is not in check */
  __CPROVER_assume(!_ZNK6engine8Position11is_in_checkENS_5ColorE(&p, 1 - p.f0));
  uint32_t *end = _ZN6engine14generate_movesERKNS_8PositionENS_5ColorEPj(&p, p.f0, MV);
  uint32_t n = end - MV;
  uint32_t k = nondet_u32(); __CPROVER_assume(k < n);
  uint32_t m = MV[k];
  Pos q = p;
  uint32_t mi = _ZN6engine8Position7do_moveEj(&q, m);
#ifdef WITNESS
  __CPROVER_assert(0, "witness");
#endif
  /* C04: incremental key == key from scratch */
  struct S_class_engine__HashKey hk; memset(&hk, 0, sizeof hk);
  _ZN6engine7HashKey4initERKNS_8PositionE(&hk, &q);
  __CPROVER_assert(hk.f0 == q.f10.f0 && hk.f1 == q.f10.f1 && hk.f2 == q.f10.f2 && hk.f3 == q.f10.f3 && hk.f4 == q.f10.f4, "C04 incremental key equals scratch key");
  /* C02 fragment: half-move clock */
  int is_castle = ((m >> 15) & 3) != 0;
  uint32_t from = m & 63, to = (m >> 6) & 63;
  int pawn = !is_castle && (p.f3[from] == 1 || p.f3[from] == 7);
  int capt = !is_castle && (p.f3[to] != 0);
  __CPROVER_assert(q.f1 == ((pawn || capt) ? 0 : p.f1 + 1), "C02 half-move clock");
  _ZN6engine8Position9undo_moveEjj(&q, m, mi);
  /* C03: everything restored */
  __CPROVER_assert(q.f0 == p.f0 && q.f1 == p.f1 && q.f2 == p.f2 && q.f8 == p.f8 && q.f9 == p.f9 && q.f11 == p.f11, "C03 scalars restored");
  for (int s = 0; s < 64; s++) __CPROVER_assert(q.f3[s] == p.f3[s], "C03 board restored");
  for (int a = 0; a < 7; a++) __CPROVER_assert(q.f6[a] == p.f6[a], "C03 kind bb restored");
  __CPROVER_assert(q.f7[0] == p.f7[0] && q.f7[1] == p.f7[1], "C03 color bb restored");
  for (int a = 1; a < 13; a++) { __CPROVER_assert(q.f5[a] == p.f5[a], "C03 counts restored"); __CPROVER_assert(same_set(q.f4[a], p.f4[a], p.f5[a]), "C03 piece lists restored as sets"); }
  __CPROVER_assert(q.f10.f0 == p.f10.f0 && q.f10.f1 == p.f10.f1 && q.f10.f2 == p.f10.f2 && q.f10.f3 == p.f10.f3 && q.f10.f4 == p.f10.f4, "C03 keys restored");
}

void h_gen(void) {
  Pos p; build(&p);
  __CPROVER_assume(!_ZNK6engine8Position11is_in_checkENS_5ColorE(&p, 1 - p.f0));
  uint32_t *end = _ZN6engine14generate_movesERKNS_8PositionENS_5ColorEPj(&p, p.f0, MV);
#ifdef WITNESS
  __CPROVER_assert(0, "witness");
#endif
  __CPROVER_assert(end - MV <= 60, "move count bound");
}
