#include "h_c01.c"
void h_make3(void) {
  build();
  for (int a = 0; a < 13; a++) for (int b = 0; b < 64; b++) _ZN6engine10PIECE_HASHE[a][b] = nondet_u64();
  for (int a = 0; a < 16; a++) _ZN6engine13CASTLING_HASHE[a] = nondet_u64();
  for (int a = 0; a < 8; a++) _ZN6engine14ENPASSANT_HASHE[a] = nondet_u64();
  _ZN6engine9SIDE_HASHE = nondet_u64();
  uint8_t hm = nondet_u8(); __CPROVER_assume(hm <= 150); P.f1 = hm;
  uint32_t ply = nondet_u32(); __CPROVER_assume(ply >= 1 && ply < 100000); P.f2 = ply;
  P.f11 = 3;
  /* arbitrary key components: only the delta is checked */
  uint64_t k0 = nondet_u64(), k1 = nondet_u64(), k2 = nondet_u64(), k3 = nondet_u64(), k4 = nondet_u64();
  P.f10.f0 = k0; P.f10.f1 = k1; P.f10.f2 = (P.f9 == 64) ? 0 : _ZN6engine14ENPASSANT_HASHE[P.f9 & 7]; P.f10.f3 = _ZN6engine13CASTLING_HASHE[P.f8]; P.f10.f4 = k4;
  k2 = P.f10.f2; k3 = P.f10.f3;
  SMove m; m.from = nondet_u8(); m.to = nondet_u8(); m.promo = nondet_u8(); m.castle = nondet_u8();
  __CPROVER_assume(m.from < 64 && m.to < 64 && m.promo < 8 && m.castle < 3);
  __CPROVER_assume(s_legal(&S, m));
  uint32_t mi = _ZN6engine8Position7do_moveEj(&P, enc(m));
#ifdef WITNESS
  __CPROVER_assert(0, "witness");
#endif
  SBoard T; s_apply(&S, m, &T);
  for (int s = 0; s < 64; s++) __CPROVER_assert(P.f3[s] == T.b[s], "C02 placement");
  __CPROVER_assert(P.f0 == T.side && P.f8 == T.cr && P.f9 == T.ep, "C02 side/rights/ep");
  int pawn = !m.castle && S_KIND(S.b[m.from]) == 1, capt = !m.castle && (S.b[m.to] != 0);
#ifndef KNOWN_CASTLE_CLOCK
  __CPROVER_assert(P.f1 == ((pawn || capt) ? 0 : hm + 1), "C02 half-move clock");
#else
  if (!m.castle) __CPROVER_assert(P.f1 == ((pawn || capt) ? 0 : hm + 1), "C02 half-move clock (castling excluded: known finding)");
#endif
  __CPROVER_assert(P.f2 == ply + 1, "C02 ply");
  /* C04 delta: piece+pawn components change by the XOR of the cells of changed squares */
  uint64_t d = 0;
  for (int s = 0; s < 64; s++) if (S.b[s] != T.b[s]) {
    if (S.b[s]) d ^= _ZN6engine10PIECE_HASHE[S.b[s]][s];
    if (T.b[s]) d ^= _ZN6engine10PIECE_HASHE[T.b[s]][s];
  }
  __CPROVER_assert(((P.f10.f0 ^ P.f10.f1) ^ (k0 ^ k1)) == d, "C04 piece/pawn key delta");
  __CPROVER_assert(P.f10.f2 == (T.ep == 64 ? 0 : _ZN6engine14ENPASSANT_HASHE[T.ep & 7]), "C04 ep key");
  __CPROVER_assert(P.f10.f3 == _ZN6engine13CASTLING_HASHE[T.cr], "C04 castling key");
  __CPROVER_assert(P.f10.f4 == (k4 ^ _ZN6engine9SIDE_HASHE), "C04 side key");
  /* C03 */
  _ZN6engine8Position9undo_moveEjj(&P, enc(m), mi);
  for (int s = 0; s < 64; s++) __CPROVER_assert(P.f3[s] == S.b[s], "C03 board restored");
  __CPROVER_assert(P.f0 == S.side && P.f8 == S.cr && P.f9 == S.ep && P.f1 == hm && P.f2 == ply && P.f11 == 3, "C03 scalars restored");
  __CPROVER_assert(P.f10.f0 == k0 && P.f10.f1 == k1 && P.f10.f2 == k2 && P.f10.f3 == k3 && P.f10.f4 == k4, "C03 keys restored");
}
