#include "ll2c_rt.h"
#include "eng_decl.h"
typedef struct S_class_engine__Position Pos;
uint32_t nondet_u32(void);
void t1(void) {
  Pos p; memset(&p, 0, sizeof p);
  p.f3[4] = 6; p.f4[6][0] = 4; p.f5[6] = 1;
  p.f3[60] = 12; p.f4[12][0] = 60; p.f5[12] = 1;
  p.f9 = 64;
  _ZN6engine7HashKey4initERKNS_8PositionE(&p.f10, &p);
  __CPROVER_assert(0, "witness");
}
