#include "tm.h"
double nondet_double(void); uint32_t nondet_u32(void);
/* libm contracts: exp(x) >= 0; pow(b,e) in [0,1] for b >= 1, e < 0; both deterministic functions of their arguments */
#define MEMO 64
static double ea[MEMO], er[MEMO]; static int en;
double exp(double x) { for (int i = 0; i < MEMO; i++) if (i < en && ea[i] == x) return er[i];
  double r = nondet_double(); __CPROVER_assume(r >= 0.0); __CPROVER_assume(en < MEMO); ea[en] = x; er[en] = r; en++; return r; }
static double pa[MEMO], pr[MEMO]; static int pn;
double pow(double b, double e) { __CPROVER_assert(b >= 1.0 && e < 0.0, "pow contract domain");
  for (int i = 0; i < MEMO; i++) if (i < pn && pa[i] == b) return pr[i];
  double r = nondet_double(); __CPROVER_assume(r >= 0.0 && r <= 1.0); __CPROVER_assume(pn < MEMO); pa[pn] = b; pr[pn] = r; pn++; return r; }
void h_tm(void) {
  static struct S_struct_engine__Limits L;
  uint32_t side = nondet_u32() & 1;
  int32_t t = nondet_u32(), inc = nondet_u32(), mtg = nondet_u32(), ply = nondet_u32();
  __CPROVER_assume(t >= 0 && t <= 86400000 && inc >= 0 && inc <= 600000 && mtg >= 0 && mtg <= MTG && ply >= 0 && ply <= 1000);
  L.f4[side] = t; L.f5[side] = inc; L.f6 = mtg;
  int64_t r = (int64_t)_ZN6engine11TimeManager13calculateTimeERKNS_6LimitsENS_5ColorEi(&L, side, ply);
#ifdef WITNESS
  __CPROVER_assert(0, "witness");
#endif
  __CPROVER_assert(r >= 0, "C20 non-negative");
  __CPROVER_assert(10 * r <= 7 * (int64_t)t, "C20 at most 70% of remaining time");
}
