#!/usr/bin/env python3
"""MANIFEST.setup_cmd: nothing is built ahead of time (every check regenerates everything); just verify the tools."""
import shutil, sys
need = ['clang++-14', 'llvm-link-14', 'goto-cc', 'cbmc', 'kissat', 'g++', 'gcc', 'python3']
missing = [t for t in need if not shutil.which(t)]
if missing:
    print('missing tools: ' + ' '.join(missing)); sys.exit(1)
print('tools ok: ' + ' '.join(need))
