#!/bin/bash
# development aid: store a confirmed seeded change from a scratch worktree: seedstore.sh <worktree> <seed name> <property> "<needs to manifest>"
wt=$1; name=$2; prop=$3; needs=$4
d=/verif/seeded/$name; mkdir -p $d
cp $wt/patch.diff $d/patch.diff; cp $wt/demo.cpp $d/demo.cpp
cp $wt/out_with.txt $d/demo_output_with_change.txt; cp $wt/out_without.txt $d/demo_output_without_change.txt
python3 - "$name" "$prop" "$needs" > $d/meta.json <<'PY'
import sys, json
name, prop, needs = sys.argv[1:4]
print(json.dumps({"seed": name, "breaks_property": prop, "needs_to_manifest": needs,
 "confirmed_by": "seedconfirm.sh in a scratch worktree: existing unit tests (47 gtest cases in 1 ctest test) pass with the change; demo.cpp exits non-zero with the change and 0 without it (outputs stored next to this file)",
 "checks_run_against_it": ["python3 /verif/run_check.py %s --tier quick (via seedtest.sh: git -C /repo apply patch.diff; run; git -C /repo checkout -- .)" % prop],
 "produced_by": "independent sub-agent given only the property text and its own worktree"}, indent=1))
PY
echo stored $d
