"""C15 - move classification predicates tell the truth (move_is_capture / move_is_quiet / move_gives_check)."""
import re, os
from pipeline import Query, Broken, VERIF
import layout, material, report
from checks import make_common as mc

TUS = ['position', 'types', 'movegen']
ENTRIES = ['_ZNK6engine8Position15move_is_captureEj', '_ZNK6engine8Position13move_is_quietEj', '_ZNK6engine8Position16move_gives_checkEj']
SLIDERS = ['_ZN6engine13slider_attackILNS_9PieceKindE3EEEmNS_6SquareEm', '_ZN6engine13slider_attackILNS_9PieceKindE4EEEmNS_6SquareEm', '_ZN6engine13slider_attackILNS_9PieceKindE5EEEmNS_6SquareEm']

def mats(tier):
    if tier == 'quick': return [material.parse(x) for x in ('KPk', 'Kkp', 'KRk', 'Kkr', 'KNk')]
    return material.M(3) + [material.parse(x) for x in ('KRBk', 'KPkp', 'KRkp', 'KBkn', 'KRRk', 'KQkp', 'KPkr', 'KNkb', 'KRkb', 'KBPk', 'KNPk', 'KPPk', 'KQkq')]

def check(ctx):
    m = ctx.module(TUS)
    tables = ctx.dump_tables()
    c, h, info = ctx.translate(m, ENTRIES, stubs=SLIDERS, overrides=tables)
    layout.field_header(ctx, m, [layout.POSITION_FIELDS, layout.HASHKEY_FIELDS], ['position.h'])
    ms = mats(ctx.tier)
    H = ['#include "c15.c"']; names = []
    for mat in ms:
        for side in (0, 1):
            fn = 'h_cls_%s_%s' % (material.name(mat), 'wb'[side])
            H.append('void %s(void) { static const uint32_t mat[] = %s; cls_case(mat, %d, %d); }' % (fn, material.cinit(mat), len(mat), side))
            names.append((fn, {'material': material.name(mat), 'side_to_move': 'wb'[side], 'squares/rights/ep/move': 'symbolic'}, mat))
    hp = ctx.path('h_c15.c'); open(hp, 'w').write('\n'.join(H) + '\n')
    gb = ctx.gotocc('c15', [c, hp], ['S_USE_BITBOARD_ORACLE']); gbw = ctx.gotocc('c15w', [c, hp], ['WITNESS', 'S_USE_BITBOARD_ORACLE'])
    qs, ws = [], []
    to = 900 if ctx.tier == 'quick' else 2700
    for fn, smp, mat in names:
        if ctx.only and not re.search(ctx.only, fn): continue
        us = mc.unwindset(len(mat)); us.update({'cls_case.0': 65, 's_attacked_bb.0': 65, 'sb_fill.0': 8})
        qs.append(Query(fn, gb, fn, us, timeout=to, sample=smp, meta={'mat': mat}))
        ws.append(Query('w_' + fn, gbw, fn, us, timeout=to, sample=smp, meta={'of': fn}, expect='witness'))
    res = ctx.run_queries(qs + ws, label='c15')
    wit = [r for r in res if r.q.expect == 'witness']; res = [r for r in res if r.q.expect != 'witness']
    def classify(r, out):
        ce = r.ce(); mv = ce.get('ce_mv', 0)
        kind = 'castling' if (mv >> 15) & 3 else 'promotion' if (mv >> 12) & 7 else 'other'
        which = '+'.join(x for x in ('capture', 'quiet', 'gives_check') if ('move_is_' + x in out) or ('move_' + x in out))
        return '%s:%s' % (kind, which or 'none')
    def replay(ctx, r):
        import fen as F
        ce = r.ce(); fen = F.from_ce(ce); mv = ce.get('ce_mv', 0)
        exe = ctx.native_bin('make_replay', [os.path.join(VERIF, 'native', 'make_replay.cpp')], mc.NATIVE_TUS)
        out = ctx.sh([exe, 'c15', fen, str(mv)], ok=(0, 1, 3))
        path = report.save_replay(ctx, r.q.name, {'harness': r.q.name, 'fen': fen, 'move': F.move_uci(mv, ce.get('ce_side', 0)), 'encoded_move': mv, 'native_output': out.strip().split('\n')})
        return {'confirmed': 'REPRODUCED' in out and 'NOT-REPRODUCED' not in out, 'key': classify(r, out), 'path': path,
                'text': '%s: position "%s" move %s | native: %s' % (r.q.name, fen, F.move_uci(mv, ce.get('ce_side', 0)), ' / '.join(l for l in out.split('\n') if l.startswith('DIFF')))}
    return report.finish(ctx, res, wit, replay=replay,
        assumptions=['slider_attack<> replaced by its contract (occluded ray walk), which C11 proves for every square and occupancy',
                     'leaper tables dumped from the real init(); mailbox rules reference trusted; pre-state satisfies RI'],
        bounds={'material': [material.name(x) for x in ms], 'sides': 'both', 'squares/rights/ep/move': 'symbolic (all legal moves incl. promotions, en passant, castling)'})
