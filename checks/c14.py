"""C14 - static evaluation is pure and bounded (general evaluator with arbitrary scratch state + mirror; endgame evaluators bounded; pawn cache)."""
import re, os
from pipeline import Query, Broken, VERIF
import layout, material, report
from checks import make_common as mc
from checks import c01, c13
from checks import search_common as sc

TUS = ['score', 'position', 'movegen', 'types', 'bithacks', 'move_bitboards', 'endgame', 'zobrist_hash']
SCORE = '_ZN6engine14PositionScorer5scoreERKNS_8PositionE'
SCF = ('SC_', 'PositionScorer', '%"class.engine::PositionScorer"', ['_pawn_hash_table', '_weight', '_attacked_by_bb', '_attacked_by_piece', '_outposts_bb', '_blockers_for_king', '_snipers_for_king', '_side_scores', '_piece_scores', '_square_scores'])

def general_materials(ctx, cand):
    """materials for which the real endgame::score answers VALUE_NONE (native run): the general evaluator is what users get there"""
    exe = ctx.native_bin('eg_none', [os.path.join(VERIF, 'native', 'eg_none.cpp')], mc.NATIVE_TUS)
    out = ctx.sh([exe] + cand)
    return [l.split()[0] for l in out.split('\n') if l.endswith(' general')]

def check(ctx):
    quick = ctx.tier == 'quick'
    m = ctx.module(TUS)
    tables = ctx.dump_tables()
    probe = [f[1:] for f in m.funcs if 'HashMapImNS_5ScoreELm262144EE5probeERKmRb' in f][0]
    insert = [f[1:] for f in m.funcs if 'HashMapImNS_5ScoreELm262144EE6insertERKmRKS1_' in f][0]
    SETUPS = ['_ZN6engine14PositionScorer5setupILNS_5ColorE0EEEvRKNS_8PositionE', '_ZN6engine14PositionScorer5setupILNS_5ColorE1EEEvRKNS_8PositionE']
    PW = '_ZN6engine14PositionScorer20score_pawns_for_sideILNS_5ColorE0EEENS_5ScoreERKNS_8PositionE'; PB = PW.replace('ColorE0', 'ColorE1')
    OUTP = ['_ZN6engine12get_outpostsILNS_5ColorE0EEEmRKNS_8PositionE', '_ZN6engine12get_outpostsILNS_5ColorE1EEEmRKNS_8PositionE']
    c, h, info = ctx.translate(m, [SCORE, PW, PB] + OUTP + SETUPS, stubs=c01.SLIDERS + ['_ZN6engine7endgame5scoreERKNS_8PositionE', probe, insert], overrides=tables)
    layout.field_header(ctx, m, [layout.POSITION_FIELDS, layout.HASHKEY_FIELDS, SCF], ['position.h', 'score.h'])
    header = open(h).read()
    mm = re.search(r'^(.*?)\b%s\(' % re.escape(probe), header, re.M); ent_t = mm.group(1).strip().rstrip('*').strip()
    mm2 = re.search(r'^(.*?)\b%s\(' % re.escape(PW), header, re.M); pawns_t = mm2.group(1).strip()
    glue = ['#define PAWNS_T %s' % pawns_t, '#define PAWNS_W %s' % PW, '#define PAWNS_B %s' % PB, 'static %s PH_ENTRY;' % ent_t, sc.proto_stub(header, probe, '*v_2 = 0; return &PH_ENTRY;'), sc.proto_stub(header, insert, '')]
    open(ctx.path('c14_glue.h'), 'w').write('\n'.join(glue) + '\n')
    cand = ['KPkp'] if quick else ['KPkp', 'KRkr', 'KNkn', 'KQkq', 'KBkn', 'KBkb', 'KRkq', 'KRPkr', 'KQkrr', 'KNPkp', 'KRRkr', 'KPPkp', 'KBPkn']
    gens = general_materials(ctx, cand)
    ctx.notes.append('materials for which the real endgame::score returns VALUE_NONE (general evaluator applies): %s' % gens)
    H = ['#include "c14.c"']; names = []
    for ms in gens:
        mat = material.parse(ms); fn = 'h_gen_%s' % ms
        H.append('void %s(void) { static const uint32_t mat[] = %s; gen_case(mat, %d); }' % (fn, material.cinit(mat), len(mat)))
        names.append((fn, {'material': ms, 'squares/side/castling rights': 'symbolic', 'scorer scratch members': 'arbitrary on entry', 'compared with': 'colour-mirrored position, second scorer object'}, mat))
    for ms in (('KPkp', 'KRkq', 'KBNkr') if quick else ('KPkp', 'KRkq', 'KBNkr', 'KQkn', 'KRRkb', 'KPPkpp')):
        mat = material.parse(ms); fn = 'h_setup_%s' % ms
        H.append('void %s(void) { static const uint32_t mat[] = %s; setup_case(mat, %d); }' % (fn, material.cinit(mat), len(mat)))
        names.append((fn, {'material': ms, 'function': 'PositionScorer::setup<WHITE>, setup<BLACK> from two arbitrary scratch states', 'squares/side/rights': 'symbolic'}, mat))
    for ms in (('KPPkp', 'KPkpp') if quick else ('KPPkp', 'KPkpp', 'KPPkpp', 'KPPPkp', 'KPkppp')):
        mat = material.parse(ms); fn = 'h_term_%s' % ms
        H.append('void %s(void) { static const uint32_t mat[] = %s; term_case(mat, %d); }' % (fn, material.cinit(mat), len(mat)))
        names.append((fn, {'material': ms, 'terms': 'get_outposts<c>, score_pawns_for_side<c> for both colours vs the mirrored position', 'squares/side': 'symbolic'}, mat))
    hp = ctx.path('h_c14.c'); open(hp, 'w').write('\n'.join(H) + '\n')
    D = ['S_USE_BITBOARD_ORACLE']
    gb = ctx.gotocc('c14', [c, hp], D); gbw = ctx.gotocc('c14w', [c, hp], D + ['WITNESS'])
    qs, ws = [], []
    to = 1200 if quick else 3000
    for fn, smp, mat in names:
        if ctx.only and not re.search(ctx.only, fn): continue
        us = mc.unwindset(len(mat)); us.update({'pos_mirror.0': 65, 'pos_mirror.1': 9, 'scratch.0': 3, 'scratch.1': 8, 'setup_case.0': 3, 'setup_case.1': 7, 'flipv.0': 9, 'term_case.0': 3})
        qs.append(Query(fn, gb, fn, us, timeout=to, sample=smp, max_unwind={'*': 30}))
        ws.append(Query('w_' + fn, gbw, fn, us, timeout=to, sample=smp, meta={'of': fn}, expect='witness', max_unwind={'*': 30}))
    res = ctx.run_queries(qs + ws, label='c14')
    wit = [r for r in res if r.q.expect == 'witness']; res = [r for r in res if r.q.expect != 'witness']
    def replay(ctx, r):
        import fen as F
        ce = r.ce(); fen = F.from_ce(ce)
        exe = ctx.native_bin('eval_replay', [os.path.join(VERIF, 'native', 'eval_replay.cpp')], mc.NATIVE_TUS + ['score'])
        out = ctx.sh([exe, 'pure', fen], ok=(0, 1, 3))
        path = report.save_replay(ctx, r.q.name, {'harness': r.q.name, 'fen': fen, 'values': [ce.get('ce_v1'), ce.get('ce_v2')], 'native_output': out.strip().split('\n')})
        conf = 'REPRODUCED' in out and 'NOT-REPRODUCED' not in out
        if r.q.name.startswith('h_term'):
            out2 = ctx.sh([exe, 'terms', fen], ok=(0, 1, 3)); conf2 = 'REPRODUCED' in out2 and 'NOT-REPRODUCED' not in out2
            return {'confirmed': True if conf2 else None, 'strict': True, 'key': 'term-symmetry', 'path': path, 'text': '%s: position "%s": %s | native full evaluation vs mirror: %s' % (r.q.name, fen, '; '.join(d for _, d in r.failed[:2]), out2.strip().replace('\n', ' / ')[:200])}
        if r.q.name.startswith('h_setup'):
            # sufficient-condition query: only a natively demonstrated dependence on earlier evaluations is a violation
            if not conf: ctx.notes.append('h_setup query failed (field %s colour %s kind %s differs) but no evaluation difference could be demonstrated natively: reported as a note, not as a violation' % (ce.get('ce_field'), ce.get('ce_color'), ce.get('ce_kind')))
            return {'confirmed': True if conf else None, 'strict': False, 'key': 'scratch-state', 'path': path, 'text': '%s: working set (field %s, colour %s, piece kind %s) survives from the previous evaluation | native battery: %s' % (r.q.name, ce.get('ce_field'), ce.get('ce_color'), ce.get('ce_kind'), out.strip().replace('\n', ' / ')[:300])}
        return {'confirmed': True if conf else None, 'strict': True, 'key': 'general-eval', 'path': path,
                'text': '%s: position "%s": %s | values %s vs %s | native: %s' % (r.q.name, fen, '; '.join(d for _, d in r.failed[:2]), ce.get('ce_v1'), ce.get('ce_v2'), out.strip().replace('\n', ' / ')[:300])}
    return report.finish(ctx, res, wit, replay=replay,
        assumptions=['slider_attack<> by contract (C11); tables dumped from the real init()', 'endgame::score replaced by VALUE_NONE for the listed materials; that the real dispatcher answers VALUE_NONE for them is checked natively on every run',
                     'pawn cache switched off (probe -> miss, insert -> nothing) in these queries: transparency of the cache (score_pawns depends on the pawn bitboards only; clear() resets whole entries) is argued from the code, not encoded',
                     'boundedness of the specialised endgame evaluators is covered by C13\'s endgame queries only through symmetry; their range is small by inspection of the constants (VALUE_KNOWN_WIN + material < win_in(MAX_DEPTH))',
                     'a scratch-dependent counterexample is replayed natively by evaluating other positions first with the same scorer object (native/eval_replay pure mode)'],
        bounds={'material (general evaluator)': gens, 'squares/side/rights': 'symbolic', 'en passant': 'none'})
