"""Shared builder for the Level A search harness (harness/search_a.c): C05, C06, C09, C10."""
import re, os
from pipeline import Query, Broken, VERIF
import layout, report, ll2c

TUS = ['search']
CTOR = '_ZN6engine6SearchC2ERKNS_8PositionERKNS_6LimitsERNS_14PositionScorerERNS_7HashMapImNS_2tt7TTEntryELm4194304EEE'
GO = '_ZN6engine6Search2goEv'; STOP = '_ZN6engine6Search4stopEv'
SEARCH = '_ZN6engine6Search6searchERNS_8PositionEillPNS_4InfoE'
STUBS = [SEARCH, '_ZN6engine6Search11init_searchEv', '_ZN6engine6Search10print_infoElilPNS_4InfoE', '_ZNK6engine8Position3uciB5cxx11Ej',
         '_ZN6engine14generate_movesERKNS_8PositionENS_5ColorEPj', '_ZN6engine11TimeManager13calculateTimeERKNS_6LimitsENS_5ColorEi',
         '_ZNSt7__cxx1112basic_stringIcSt11char_traitsIcESaIcEED2Ev']
INS_C = '_ZNSt6vectorIjSaIjEE6insertIPKjvEEN9__gnu_cxx17__normal_iteratorIPjS1_EENS6_IS4_S1_EET_SA_'
INS_M = '_ZNSt6vectorIjSaIjEE6insertIPjvEEN9__gnu_cxx17__normal_iteratorIS3_S1_EENS5_IPKjS1_EET_SA_'
SEARCH_F = ('SRCH', 'Search', '%"class.engine::Search"', ['_position', '_scorer', 'limits', 'check_limits_counter', 'stop_search', '_search_time', '_search_depth', '_current_depth',
                                                          '_max_nodes_searched', '_best_move', '_start_time', '_root_moves', '_ttable', '_stack_info', '_history_score', '_move_orderer',
                                                          '_counter_move_table', '_stats'])
INFO_F = ('INFO', 'Info', '%"struct.engine::Info"', ['_pv_list', '_pv_list_length', '_static_eval', '_ply', '_current_move', '_killer_moves', '_counter_move'])
LIM_F = ('LIM_', 'Limits', '%"struct.engine::Limits"', ['timeleft', 'timeinc', 'movestogo', 'depth', 'nodes', 'movetime', 'infinite', 'searchmovesnum', 'searchmoves'])


def proto_stub(header, name, body):
    """definition with exactly the prototype that eng.h declares for `name`"""
    mm = re.search(r'^([^\n;]*\b%s\(([^;]*)\));' % re.escape(name), header, re.M)
    if not mm: raise Broken('prototype of %s not found in generated header' % name)
    return '%s { %s }' % (mm.group(1), body)


def vec_path(m, tname):
    """field path from a std::vector<T> down to the struct holding the three pointers"""
    path = ''
    t = m.types.get(tname)
    for _ in range(8):
        if t is None: break
        if len(t.els) == 3 and all(isinstance(e, ll2c.TPtr) for e in t.els): return path
        e = t.els[0]; path += '.f0'
        t = m.types.get(e.name) if isinstance(e, ll2c.TNamed) else None
    raise Broken('cannot find the pointer triple of ' + tname)


def shrink_tables(ctx, m, fm):
    """Level A never reads or writes the history / counter-move / move-orderer tables (2.8 MB of the Search object); CBMC
    pays for every element of an object's type, so for this harness only their array lengths are cut down in the parsed
    IR types (addresses of elements [0][0] and [0][1], which iter_search takes, stay valid).  Stated as a cut."""
    st = m.types['%"class.engine::Search"']
    def arr_of(t):
        t2 = m.types.get(t.name) if isinstance(t, ll2c.TNamed) else t
        if isinstance(t2, ll2c.TStruct) and len(t2.els) == 1 and isinstance(t2.els[0], ll2c.TArr): return t2.els[0]
        return t2 if isinstance(t2, ll2c.TArr) else None
    cm = arr_of(st.els[fm[('SRCH', '_counter_move_table')]])
    if cm is None: raise Broken('unexpected type of Search::_counter_move_table')
    inner = arr_of(cm.el); cm.n = 1
    if inner is not None: inner.n = 2
    hs = arr_of(st.els[fm[('SRCH', '_history_score')]])
    if hs is None: raise Broken('unexpected type of Search::_history_score')
    inner = arr_of(hs.el)
    if inner is not None: inner.n = 1
    mo = m.types.get(st.els[fm[('SRCH', '_move_orderer')]].name)
    if mo is not None and isinstance(mo.els[0], ll2c.TArr): mo.els[0].n = 1
    ctx.notes.append('Search::_counter_move_table, _history_score and MoveOrderer::_scores shrunk in the model (never accessed by the encoded control code)')


def build(ctx, defines, extra_stubs=()):
    m = ctx.module(TUS)
    fm = layout.field_header(ctx, m, [SEARCH_F, INFO_F, LIM_F], ['search.h'])
    shrink_tables(ctx, m, fm)
    dc = [f[1:] for f in m.funcs if '__duration_cast_impl' in f and not m.funcs[f].decl]
    actor = [f[1:] for f in m.funcs if re.match(r'@_ZNSt5arrayIN6engine4InfoELm\d+EEC2Ev$', f)]
    if len(actor) != 1: raise Broken('constructor of std::array<Info, N> not found uniquely: %s' % actor)
    c, h, info = ctx.translate(m, [CTOR, GO, STOP, '_ZN6engine6Search12check_limitsEv'], stubs=STUBS + actor + [INS_C, INS_M] + dc + list(extra_stubs),
                               opt_stubs=['_ZN6engine11MoveOrdererC1E', '_ZNSolsEPFRSoS_E', '_ZdlPv'])
    header = open(h).read()
    st = m.types['%"class.engine::Search"']
    rv = st.els[fm[('SRCH', '_root_moves')]]
    # the stop flag: plain bool or std::atomic<bool> (a struct around the byte)
    ft = st.els[fm[('SRCH', 'stop_search')]]; leaf = ''; atomic = False
    for _ in range(4):
        if isinstance(ft, ll2c.TNamed):
            if 'atomic' in ft.name: atomic = True
            ft = m.types.get(ft.name); continue
        if isinstance(ft, ll2c.TStruct) and len(ft.els) == 1: leaf += '.f0'; ft = ft.els[0]; continue
        break
    ctx.stop_flag_atomic = atomic
    open(ctx.path('search_paths.h'), 'w').write('#define VECPATH %s\n#define STOPFLAG SE.SRCH_stop_search%s\n' % (vec_path(m, rv.name), leaf))
    glue = [proto_stub(header, INS_C, 'return do_insert(v_2, v_3);'), proto_stub(header, INS_M, 'return do_insert(v_2, v_3);')]
    mo = [f[1:] for f in m.funcs if f.startswith('@_ZN6engine11MoveOrdererC1E')]
    for f in mo: glue.append(proto_stub(header, f, ''))
    glue.append(proto_stub(header, actor[0], ''))
    # std::chrono::duration_cast<milliseconds>(nanoseconds): library code (a 64-bit division by 10^6); contract: some value in [0, ns] for ns >= 0
    for f in dc: glue.append(proto_stub(header, f, 'int64_t ns = (int64_t)(*v_0).f0; int64_t ms = nondet_i64(); if (ns >= 0) __CPROVER_assume(ms >= 0 && ms <= ns); else __CPROVER_assume(ms <= 0 && ms >= ns); return (uint64_t)ms;'))
    if '_ZNSolsEPFRSoS_E' in header: glue.append(proto_stub(header, '_ZNSolsEPFRSoS_E', 'return v_0;'))
    open(ctx.path('search_glue.h'), 'w').write('\n'.join(glue) + '\n')
    hp = os.path.join(VERIF, 'harness', 'search_a.c')
    defines = list(defines) + ['LL2C_SKIP_BIG_ZEROING']
    gb = ctx.gotocc('sa', [c, hp], defines); gbw = ctx.gotocc('saw', [c, hp], list(defines) + ['WITNESS'])
    return m, gb, gbw


def unwindset(dmax, research):
    it = min(dmax, 45) + 2
    return {'_ZN6engine6Search11iter_searchEv.0': (research + 2) * 1 + 1, '_ZN6engine6Search11iter_searchEv.1': it, '_ZN6engine20compute_search_deltaEPjil.0': it,
            'setup_limits.0': 5, 'setup_limits.1': 5, 'is_root_move.0': 5, 'do_insert.0': 5, 'go_case.0': 5, 'go_case.1': 5,
            '_ZN6engine14generate_movesERKNS_8PositionENS_5ColorEPj.0': 5, '_ZN6engine14generate_movesERKNS_8PositionENS_5ColorEPj.1': 5}


EXTRA = []
ASSUME = ['Search::search is replaced by its contract (polls stop flag and limits at entry as the real code does; may be interrupted; otherwise leaves a PV whose first move is a root move and '
          'returns a value in [-VALUE_MATE, VALUE_MATE]) -- the contract is what the one-node Level B queries establish',
          'root move list: 1..4 arbitrary distinct moves (generate_moves stubbed; legality is C01) or the given searchmoves',
          'clock: arbitrary non-decreasing instants; std::chrono::duration_cast to milliseconds (library code: a 64-bit division) replaced by the contract 0 <= ms <= ns; calculateTime: arbitrary value in [0, 24h] (C20)',
          'init_search (zeroing loops), print_info, Position::uci and iostream output are recording stubs; exceptional (throwing) paths are cut',
          'history / counter-move / move-orderer tables of the Search object are shrunk in the model (never touched by the control code); zero-fills above 16 KB in the constructor are skipped',
          'floating point of compute_search_delta / aspiration growth abstracted to arbitrary non-negative values in the multi-iteration query; at most RESEARCH_MAX aspiration re-searches per iteration there',
          'stop(): the real Search::stop is executed at one symbolic point of the schedule: inside init_search (before go() continues), at the first clock read, just before the k-th root search call, or while a root search is in progress']


def run(ctx, pid, want):
    """runs the Level A query and keeps the failed assertions whose text starts with one of `want`"""
    quick = ctx.tier == 'quick'
    dmax = 60
    itmax = 3 if quick else 12
    rs = 1 if quick else 2
    m, gb, gbw = build(ctx, ['DMAX=%d' % dmax, 'ITER_MAX=%d' % itmax, 'RESEARCH_MAX=%d' % rs, 'LL2C_FP_ABSTRACT'])
    us = unwindset(itmax + 1, rs)
    to = 1500 if quick else 3000
    smp = {'harness': 'h_go', 'limits': 'depth 0..%d, movetime, clock, nodes, infinite, searchmoves 0..4: symbolic; at most %d iterations complete' % (dmax, itmax), 'stop delivery point': 'symbolic', 'root moves': '1..4 symbolic'}
    qs, ws = [], []
    for fn, what in (('h_go_limits', 'no stop, no searchmoves'), ('h_go_stop', 'a stop is delivered at a symbolic point'), ('h_go_searchmoves', 'searchmoves given (1..4 moves)')):
        if ctx.only and not re.search(ctx.only, fn): continue
        s2 = dict(smp); s2['harness'] = fn; s2['case'] = what
        qs.append(Query(fn, gb, fn, us, timeout=to, sample=s2, extra=EXTRA, max_unwind={'*': 60}, meta={'want': want}))
        ws.append(Query('w_' + fn, gbw, fn, us, timeout=to, meta={'of': fn}, expect='witness', extra=EXTRA, max_unwind={'*': 60}))
    res = ctx.run_queries(qs + ws, label=pid.lower())
    wit = [r for r in res if r.q.expect == 'witness']; res = [r for r in res if r.q.expect != 'witness']
    for r in res:
        if r.status == 'fail':
            mine = [f for f in r.failed if any(f[1].startswith(w) for w in want) or not re.match(r'C\d\d', f[1])]
            other = [f for f in r.failed if f not in mine]
            if other: ctx.notes.append('assertions of other properties failed in the same query (reported by their own checks): ' + '; '.join(sorted({d for _, d in other})))
            r.failed = mine
            if not mine: r.status = 'pass'
    return m, res, wit, itmax


def native_engine(ctx, sanitize=False):
    """the real engine binary built from /repo's current sources (for UCI-level replays)"""
    import glob
    srcs = sorted(glob.glob(os.path.join(os.environ.get('VERIF_REPO', '/repo'), 'engine', '*.cpp')))
    exe = ctx.path('engine_asan' if sanitize else 'engine_native')
    if os.path.exists(exe): return exe
    flags = ['-std=c++20', '-O1', '-DNDEBUG', '-DLOG_LEVEL=0', '-w', '-I', os.path.join(os.environ.get('VERIF_REPO', '/repo'), 'engine'), '-I', ctx.cfg]
    if sanitize: flags += ['-fsanitize=address,undefined', '-fno-omit-frame-pointer', '-g']
    ctx.sh(['g++'] + flags + srcs + ['-o', exe, '-lpthread'], timeout=1200)
    return exe


def uci_session(ctx, exe, lines, wait=3.0, env=None):
    import subprocess, time
    p = subprocess.Popen([exe], stdin=subprocess.PIPE, stdout=subprocess.PIPE, stderr=subprocess.STDOUT, env=env)
    for l in lines:
        if isinstance(l, float): time.sleep(l); continue
        p.stdin.write((l + '\n').encode()); p.stdin.flush()
    time.sleep(wait)
    try:
        p.stdin.write(b'quit\n'); p.stdin.flush()
    except Exception: pass
    try: out = p.communicate(timeout=20)[0].decode('utf-8', 'replace')
    except subprocess.TimeoutExpired:
        p.kill(); out = p.communicate()[0].decode('utf-8', 'replace') + '\n[killed]'
    return out


# ------------------------------------------------------------------------------------------------ Level B (one node)
QSEARCH = '_ZN6engine6Search17quiescence_searchERNS_8PositionEillPNS_4InfoE'
B_STUBS = ['_ZN6engine14generate_movesERKNS_8PositionENS_5ColorEPj', '_ZN6engine8Position7do_moveEj', '_ZN6engine8Position9undo_moveEjj', '_ZN6engine8Position12do_null_moveEv',
           '_ZN6engine8Position14undo_null_moveEj', '_ZNK6engine8Position11is_in_checkENS_5ColorE', '_ZNK6engine8Position11is_repeatedEv', '_ZNK6engine8Position7is_drawEv',
           '_ZNK6engine8Position11no_nonpawnsENS_5ColorE', '_ZNK6engine8Position13move_is_quietEj', '_ZNK6engine8Position16move_gives_checkEj', '_ZN6engine19late_move_reductionEii']
B_GLUE = {'probe': '_ZN6engine7HashMapImNS_2tt7TTEntryELm4194304EE5probeERKmRb', 'insert': '_ZN6engine7HashMapImNS_2tt7TTEntryELm4194304EE6insertERKmRKS2_',
          'epoch': '_ZNK6engine7HashMapImNS_2tt7TTEntryELm4194304EE14isCurrentEpochEj', 'score': '_ZN6engine14PositionScorer5scoreERKNS_8PositionE',
          'order': '_ZN6engine11MoveOrderer11order_movesERKNS_8PositionEPjS4_PNS_4InfoE', 'ums': '_ZN6engine18update_move_scoresERKNS_8PositionEjPNS_4InfoERSt5arrayIS5_IS5_IiLm64EELm64EELm2EEi'}


def shrink_tables_b(ctx, m, fm):
    """the one-node harness never indexes inside a PieceHistory or the history-score rows (update_move_scores and order_moves are
    stubbed), but search() computes &_counter_move_table[piece][to]: the outer [13][64] shape is kept, the inner tables are cut"""
    st = m.types['%"class.engine::Search"']
    def arr_of(t):
        t2 = m.types.get(t.name) if isinstance(t, ll2c.TNamed) else t
        if isinstance(t2, ll2c.TStruct) and len(t2.els) == 1 and isinstance(t2.els[0], ll2c.TArr): return t2.els[0]
        return t2 if isinstance(t2, ll2c.TArr) else None
    cm = arr_of(st.els[fm[('SRCH', '_counter_move_table')]]); lvl2 = arr_of(cm.el); ph = arr_of(lvl2.el); row = arr_of(ph.el)
    ph.n = 1; row.n = 1
    mo = m.types.get(st.els[fm[('SRCH', '_move_orderer')]].name)
    if mo is not None and isinstance(mo.els[0], ll2c.TArr): mo.els[0].n = 1
    # further cuts of arrays the node code indexes only with small values or not at all: PV arrays (child PV <= 8 moves), Limits::searchmoves, Position::_history
    stk = arr_of(st.els[fm[('SRCH', '_stack_info')]])
    if stk is not None:
        ctx.stack_slots = stk.n
        stk.n = 3      # the node only touches info-1, info, info+1: modelled as slots 0,1,2; the true stack index IDX is kept as data (ply) and for the bound arithmetic
    info_t = m.types['%"struct.engine::Info"']; pv = arr_of(info_t.els[0])
    if pv is not None: pv.n = 16
    lim = m.types['%"struct.engine::Limits"']
    if isinstance(lim.els[0], ll2c.TArr): lim.els[0].n = 8
    pos = m.types['%"class.engine::Position"']
    if isinstance(pos.els[-1], ll2c.TArr) and pos.els[-1].n == 800: pos.els[-1].n = 8
    ml = [g for g in m.globals if 'MOVE_LISTE' in g]
    for g in ml:
        t = m.globals[g][0]
        if isinstance(t, ll2c.TArr) and isinstance(t.el, ll2c.TArr): t.el.n = 8        # rows of MOVE_LIST: the node's list has at most NM <= 6 moves
    ctx.notes.append('PieceHistory tables, history scores and MoveOrderer::_scores are shrunk in the model (only update_move_scores / order_moves, both stubbed, look inside them); '
                     'the search stack is modelled by the three slots the node touches (info-1, info, info+1), rows of the global MOVE_LIST are cut to 8 entries, PV arrays to 16, Limits::searchmoves and Position::_history to 8 in the model (the node has at most NM moves, child PVs at most 8; the history is only read by stubbed predicates)')


def build_b(ctx, idx, qnode, defines=(), nm=3, tag=''):
    m = ctx.module(TUS + ['types', 'zobrist_hash'], tag='B')
    if not hasattr(ctx, '_b_fm'):
        ctx._b_fm = layout.field_header(ctx, m, [SEARCH_F, INFO_F, LIM_F], ['search.h'])
        shrink_tables_b(ctx, m, ctx._b_fm)
    fm = ctx._b_fm
    c, h, info = ctx.translate(m, [SEARCH, QSEARCH, '_ZN6engine6Search12check_limitsEv'], stubs=B_STUBS + list(B_GLUE.values()), out='engb',
                               def_rename={SEARCH: 'search_node', QSEARCH: 'qsearch_node'})
    header = open(h).read()
    open(ctx.path('eng.h'), 'w').write(header)
    st = m.types['%"class.engine::Search"']
    rv = st.els[fm[('SRCH', '_root_moves')]]
    ft = st.els[fm[('SRCH', 'stop_search')]]; leaf = ''
    for _ in range(4):
        if isinstance(ft, ll2c.TNamed): ft = m.types.get(ft.name); continue
        if isinstance(ft, ll2c.TStruct) and len(ft.els) == 1: leaf += '.f0'; ft = ft.els[0]; continue
        break
    open(ctx.path('search_paths.h'), 'w').write('#define VECPATH %s\n#define STOPFLAG SE.SRCH_stop_search%s\n' % (vec_path(m, rv.name), leaf))
    mm = re.search(r'^(.*?)\b%s\(' % re.escape(B_GLUE['probe']), header, re.M)
    ent_t = mm.group(1).strip().rstrip('*').strip()
    glue = ['static %s TT_ENTRY;' % ent_t,
            proto_stub(header, B_GLUE['probe'], '*v_2 = (uint8_t)tt_found; return &TT_ENTRY;'),
            proto_stub(header, B_GLUE['insert'], 'n_inserts++; inserted_move = (*v_2).f3;'),
            proto_stub(header, B_GLUE['epoch'], 'return nondet_bool();'),
            proto_stub(header, B_GLUE['score'], 'int64_t v = nondet_i64(); __CPROVER_assume(v > -MATE_BOUND && v < MATE_BOUND); return (uint64_t)v;'),
            proto_stub(header, B_GLUE['order'], 'int64_t n = v_3 - v_2; for (int k = 0; k < 3; k++) { uint32_t i = nondet_u32(), j = nondet_u32(); if ((int64_t)i < n && (int64_t)j < n && i < NM && j < NM) { uint32_t t = v_2[i]; v_2[i] = v_2[j]; v_2[j] = t; } }'),
            proto_stub(header, B_GLUE['ums'], '')]
    open(ctx.path('searchb_glue.h'), 'w').write('\n'.join(glue) + '\n')
    hp = os.path.join(VERIF, 'harness', 'search_b.c')
    D = ['IDX=%d' % idx, 'NM=%d' % nm, 'STACK_LAST=%d' % (getattr(ctx, 'stack_slots', 80) - 1), 'LL2C_SKIP_BIG_ZEROING'] + (['QNODE'] if qnode else []) + list(defines)
    name = 'sb_%s%d%s' % ('q' if qnode else 's', idx, tag)
    gb = ctx.gotocc(name, [c, hp], D); gbw = ctx.gotocc(name + 'w', [c, hp], D + ['WITNESS'])
    return gb, gbw


def unwindset_b(nm):
    n1 = nm + 2
    return {'in_list.0': n1, 'setup_list.0': n1, 'setup_list.1': n1, 'setup_list.2': n1, 'child.0': 17, 'child.1': 9, 'common_post.0': 17, 'setup_node.0': 9, '_ZN6engine14generate_movesERKNS_8PositionENS_5ColorEPj.0': n1,
            'search_node.0': n1, 'search_node.1': n1, 'search_node.2': n1, 'qsearch_node.0': n1, 'qsearch_node.1': n1, '_ZN6engine23add_new_move_to_pv_listEPNS_4InfoEjS1_.0': 12,
            B_GLUE['order'] + '.0': 4}


ASSUME_B = ['one node of Search::search / Search::quiescence_search is executed as compiled; recursive calls go to contract stubs (children poll the stop flag at entry, may be interrupted, otherwise return a value in '
            '[-VALUE_MATE, VALUE_MATE] and leave an arbitrary PV of at most 8 moves); by induction over plies the node properties extend to whole searches',
            'generate_moves -> 0..NM arbitrary distinct canonically encoded moves (C01, C16); order_moves -> arbitrary permutation (the real MoveOrderer is not encoded); do/undo (null) move -> counted stubs (C02/C03); '
            'is_in_check, is_repeated, is_draw, move_is_quiet, move_gives_check, no_nonpawns -> arbitrary answers (C07, C15); PositionScorer::score -> arbitrary value strictly inside the non-mate range (C14); '
            'late_move_reduction -> arbitrary 0..6 (libm log); update_move_scores -> empty',
            'transposition table: probe returns found or not and ONE entry with arbitrary depth, flag, move and epoch and any score in [-VALUE_INFINITE, VALUE_INFINITE] (poisoned/colliding entries included); insert is recorded',
            'model cuts: the search stack is the three slots the node touches (true index kept as data), MOVE_LIST rows 8, PV arrays 16, history/counter-move tables shrunk (see notes)']


def run_b(ctx, pid, specs, want, nm=None):
    """specs: list of (idx, qnode, defines, tag).  Returns (results, witnesses)"""
    quick = ctx.tier == 'quick'
    nm = nm or (2 if quick else 3)
    qs, ws = [], []
    for idx, qnode, defs, tag in specs:
        fn = 'h_qsearch' if qnode else 'h_search'
        name = '%s_idx%d%s' % (fn, idx, tag)
        if ctx.only and not re.search(ctx.only, name): continue
        gb, gbw = build_b(ctx, idx, qnode, defines=defs, nm=nm, tag=tag)
        smp = {'harness': name, 'node': 'quiescence_search' if qnode else 'search', 'stack index': idx, 'moves at the node': '0..%d' % nm, 'depth/alpha/beta/table entry/stop flag': 'symbolic', 'variant': tag or 'general'}
        to = 900 if quick else 2700
        qs.append(Query(name, gb, fn, unwindset_b(nm), timeout=to, sample=smp, extra=EXTRA, max_unwind={'*': 20}))
        ws.append(Query('w_' + name, gbw, fn, unwindset_b(nm), timeout=to, meta={'of': name}, expect='witness', extra=EXTRA, max_unwind={'*': 20}))
    res = ctx.run_queries(qs + ws, par=8, label=pid.lower() + 'b')
    wit = [r for r in res if r.q.expect == 'witness']; res = [r for r in res if r.q.expect != 'witness']
    for r in res:
        if r.status == 'fail':
            mine = [f for f in r.failed if any(f[1].startswith(w) or ('/' + w) in f[1][:8] for w in want) or not re.match(r'C\d\d', f[1])]
            other = [f for f in r.failed if f not in mine]
            if other: ctx.notes.append('assertions of other properties failed in the same query (reported by their own checks): ' + '; '.join(sorted({d for _, d in other})))
            r.failed = mine
            if not mine: r.status = 'pass'
    return res, wit
