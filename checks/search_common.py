"""Shared builder for the Level A search harness (harness/search_a.c): C05, C06, C09, C10."""
import re, os
from pipeline import Query, Broken, VERIF
import layout, report, ll2c

TUS = ['search']
CTOR = '_ZN6engine6SearchC2ERKNS_8PositionERKNS_6LimitsERNS_14PositionScorerERNS_7HashMapImNS_2tt7TTEntryELm4194304EEE'
GO = '_ZN6engine6Search2goEv'; STOP = '_ZN6engine6Search4stopEv'
SEARCH = '_ZN6engine6Search6searchERNS_8PositionEillPNS_4InfoE'
STUBS = [SEARCH, '_ZNSt5arrayIN6engine4InfoELm80EEC2Ev', '_ZN6engine6Search11init_searchEv', '_ZN6engine6Search10print_infoElilPNS_4InfoE', '_ZNK6engine8Position3uciB5cxx11Ej',
         '_ZN6engine14generate_movesERKNS_8PositionENS_5ColorEPj', '_ZN6engine11TimeManager13calculateTimeERKNS_6LimitsENS_5ColorEi',
         '_ZNSt7__cxx1112basic_stringIcSt11char_traitsIcESaIcEED2Ev']
INS_C = '_ZNSt6vectorIjSaIjEE6insertIPKjvEEN9__gnu_cxx17__normal_iteratorIPjS1_EENS6_IS4_S1_EET_SA_'
INS_M = '_ZNSt6vectorIjSaIjEE6insertIPjvEEN9__gnu_cxx17__normal_iteratorIS3_S1_EENS5_IPKjS1_EET_SA_'
SEARCH_F = ('SRCH', 'Search', '%"class.engine::Search"', ['_position', '_scorer', 'limits', 'check_limits_counter', 'stop_search', '_search_time', '_search_depth', '_current_depth',
                                                          '_max_nodes_searched', '_best_move', '_start_time', '_root_moves', '_ttable', '_stack_info', '_history_score', '_move_orderer',
                                                          '_counter_move_table', '_stats'])
INFO_F = ('INFO', 'Info', '%"struct.engine::Info"', ['_pv_list', '_pv_list_length', '_static_eval', '_ply', '_current_move', '_killer_moves', '_counter_move'])
LIM_F = ('LIM_', 'Limits', '%"struct.engine::Limits"', ['timeleft', 'timeinc', 'movestogo', 'depth', 'nodes', 'movetime', 'infinite', 'searchmovesnum', 'searchmoves'])


def proto_stub(header, name, body):
    """definition with exactly the prototype that eng.h declares for `name`"""
    mm = re.search(r'^([^\n;]*\b%s\(([^;]*)\));' % re.escape(name), header, re.M)
    if not mm: raise Broken('prototype of %s not found in generated header' % name)
    return '%s { %s }' % (mm.group(1), body)


def vec_path(m, tname):
    """field path from a std::vector<T> down to the struct holding the three pointers"""
    path = ''
    t = m.types.get(tname)
    for _ in range(8):
        if t is None: break
        if len(t.els) == 3 and all(isinstance(e, ll2c.TPtr) for e in t.els): return path
        e = t.els[0]; path += '.f0'
        t = m.types.get(e.name) if isinstance(e, ll2c.TNamed) else None
    raise Broken('cannot find the pointer triple of ' + tname)


def shrink_tables(ctx, m, fm):
    """Level A never reads or writes the history / counter-move / move-orderer tables (2.8 MB of the Search object); CBMC
    pays for every element of an object's type, so for this harness only their array lengths are cut down in the parsed
    IR types (addresses of elements [0][0] and [0][1], which iter_search takes, stay valid).  Stated as a cut."""
    st = m.types['%"class.engine::Search"']
    def arr_of(t):
        t2 = m.types.get(t.name) if isinstance(t, ll2c.TNamed) else t
        if isinstance(t2, ll2c.TStruct) and len(t2.els) == 1 and isinstance(t2.els[0], ll2c.TArr): return t2.els[0]
        return t2 if isinstance(t2, ll2c.TArr) else None
    cm = arr_of(st.els[fm[('SRCH', '_counter_move_table')]])
    if cm is None: raise Broken('unexpected type of Search::_counter_move_table')
    inner = arr_of(cm.el); cm.n = 1
    if inner is not None: inner.n = 2
    hs = arr_of(st.els[fm[('SRCH', '_history_score')]])
    if hs is None: raise Broken('unexpected type of Search::_history_score')
    inner = arr_of(hs.el)
    if inner is not None: inner.n = 1
    mo = m.types.get(st.els[fm[('SRCH', '_move_orderer')]].name)
    if mo is not None and isinstance(mo.els[0], ll2c.TArr): mo.els[0].n = 1
    ctx.notes.append('Search::_counter_move_table, _history_score and MoveOrderer::_scores shrunk in the model (never accessed by the encoded control code)')


def build(ctx, defines, extra_stubs=()):
    m = ctx.module(TUS)
    fm = layout.field_header(ctx, m, [SEARCH_F, INFO_F, LIM_F], ['search.h'])
    shrink_tables(ctx, m, fm)
    dc = [f[1:] for f in m.funcs if '__duration_cast_impl' in f and not m.funcs[f].decl]
    c, h, info = ctx.translate(m, [CTOR, GO, STOP, '_ZN6engine6Search12check_limitsEv'], stubs=STUBS + [INS_C, INS_M] + dc + list(extra_stubs),
                               opt_stubs=['_ZN6engine11MoveOrdererC1E', '_ZNSolsEPFRSoS_E', '_ZdlPv'])
    header = open(h).read()
    st = m.types['%"class.engine::Search"']
    rv = st.els[fm[('SRCH', '_root_moves')]]
    # the stop flag: plain bool or std::atomic<bool> (a struct around the byte)
    ft = st.els[fm[('SRCH', 'stop_search')]]; leaf = ''; atomic = False
    for _ in range(4):
        if isinstance(ft, ll2c.TNamed):
            if 'atomic' in ft.name: atomic = True
            ft = m.types.get(ft.name); continue
        if isinstance(ft, ll2c.TStruct) and len(ft.els) == 1: leaf += '.f0'; ft = ft.els[0]; continue
        break
    ctx.stop_flag_atomic = atomic
    open(ctx.path('search_paths.h'), 'w').write('#define VECPATH %s\n#define STOPFLAG SE.SRCH_stop_search%s\n' % (vec_path(m, rv.name), leaf))
    glue = [proto_stub(header, INS_C, 'return do_insert(v_2, v_3);'), proto_stub(header, INS_M, 'return do_insert(v_2, v_3);')]
    mo = [f[1:] for f in m.funcs if f.startswith('@_ZN6engine11MoveOrdererC1E')]
    for f in mo: glue.append(proto_stub(header, f, ''))
    glue.append(proto_stub(header, '_ZNSt5arrayIN6engine4InfoELm80EEC2Ev', ''))
    # std::chrono::duration_cast<milliseconds>(nanoseconds): library code (a 64-bit division by 10^6); contract: some value in [0, ns] for ns >= 0
    for f in dc: glue.append(proto_stub(header, f, 'int64_t ns = (int64_t)(*v_0).f0; int64_t ms = nondet_i64(); if (ns >= 0) __CPROVER_assume(ms >= 0 && ms <= ns); else __CPROVER_assume(ms <= 0 && ms >= ns); return (uint64_t)ms;'))
    if '_ZNSolsEPFRSoS_E' in header: glue.append(proto_stub(header, '_ZNSolsEPFRSoS_E', 'return v_0;'))
    open(ctx.path('search_glue.h'), 'w').write('\n'.join(glue) + '\n')
    hp = os.path.join(VERIF, 'harness', 'search_a.c')
    defines = list(defines) + ['LL2C_SKIP_BIG_ZEROING']
    gb = ctx.gotocc('sa', [c, hp], defines); gbw = ctx.gotocc('saw', [c, hp], list(defines) + ['WITNESS'])
    return m, gb, gbw


def unwindset(dmax, research):
    it = min(dmax, 45) + 2
    return {'_ZN6engine6Search11iter_searchEv.0': (research + 2) * 1 + 1, '_ZN6engine6Search11iter_searchEv.1': it, '_ZN6engine20compute_search_deltaEPjil.0': it,
            'setup_limits.0': 5, 'setup_limits.1': 5, 'is_root_move.0': 5, 'do_insert.0': 5, 'go_case.0': 5, 'go_case.1': 5,
            '_ZN6engine14generate_movesERKNS_8PositionENS_5ColorEPj.0': 5, '_ZN6engine14generate_movesERKNS_8PositionENS_5ColorEPj.1': 5}


EXTRA = ['--object-bits', '12']
ASSUME = ['Search::search is replaced by its contract (polls stop flag and limits at entry as the real code does; may be interrupted; otherwise leaves a PV whose first move is a root move and '
          'returns a value in [-VALUE_MATE, VALUE_MATE]) -- the contract is what the one-node Level B queries establish',
          'root move list: 1..4 arbitrary distinct moves (generate_moves stubbed; legality is C01) or the given searchmoves',
          'clock: arbitrary non-decreasing instants; std::chrono::duration_cast to milliseconds (library code: a 64-bit division) replaced by the contract 0 <= ms <= ns; calculateTime: arbitrary value in [0, 24h] (C20)',
          'init_search (zeroing loops), print_info, Position::uci and iostream output are recording stubs; exceptional (throwing) paths are cut',
          'history / counter-move / move-orderer tables of the Search object are shrunk in the model (never touched by the control code); zero-fills above 16 KB in the constructor are skipped',
          'floating point of compute_search_delta / aspiration growth abstracted to arbitrary non-negative values in the multi-iteration query; at most RESEARCH_MAX aspiration re-searches per iteration there',
          'stop(): the real Search::stop is executed at one symbolic point of the schedule: inside init_search (before go() continues), at the first clock read, just before the k-th root search call, or while a root search is in progress']


def run(ctx, pid, want):
    """runs the Level A query and keeps the failed assertions whose text starts with one of `want`"""
    quick = ctx.tier == 'quick'
    dmax = 60
    itmax = 3 if quick else 12
    rs = 1 if quick else 2
    m, gb, gbw = build(ctx, ['DMAX=%d' % dmax, 'ITER_MAX=%d' % itmax, 'RESEARCH_MAX=%d' % rs, 'LL2C_FP_ABSTRACT'])
    us = unwindset(itmax + 1, rs)
    to = 1500 if quick else 3000
    smp = {'harness': 'h_go', 'limits': 'depth 0..%d, movetime, clock, nodes, infinite, searchmoves 0..4: symbolic; at most %d iterations complete' % (dmax, itmax), 'stop delivery point': 'symbolic', 'root moves': '1..4 symbolic'}
    qs, ws = [], []
    for fn, what in (('h_go_limits', 'no stop, no searchmoves'), ('h_go_stop', 'a stop is delivered at a symbolic point'), ('h_go_searchmoves', 'searchmoves given (1..4 moves)')):
        if ctx.only and not re.search(ctx.only, fn): continue
        s2 = dict(smp); s2['harness'] = fn; s2['case'] = what
        qs.append(Query(fn, gb, fn, us, timeout=to, sample=s2, extra=EXTRA, max_unwind={'*': 60}, meta={'want': want}))
        ws.append(Query('w_' + fn, gbw, fn, us, timeout=to, meta={'of': fn}, expect='witness', extra=EXTRA, max_unwind={'*': 60}))
    res = ctx.run_queries(qs + ws, label=pid.lower())
    wit = [r for r in res if r.q.expect == 'witness']; res = [r for r in res if r.q.expect != 'witness']
    for r in res:
        if r.status == 'fail':
            mine = [f for f in r.failed if any(f[1].startswith(w) for w in want) or not re.match(r'C\d\d', f[1])]
            other = [f for f in r.failed if f not in mine]
            if other: ctx.notes.append('assertions of other properties failed in the same query (reported by their own checks): ' + '; '.join(sorted({d for _, d in other})))
            r.failed = mine
            if not mine: r.status = 'pass'
    return m, res, wit, itmax


def native_engine(ctx, sanitize=False):
    """the real engine binary built from /repo's current sources (for UCI-level replays)"""
    import glob
    srcs = sorted(glob.glob(os.path.join(os.environ.get('VERIF_REPO', '/repo'), 'engine', '*.cpp')))
    exe = ctx.path('engine_asan' if sanitize else 'engine_native')
    if os.path.exists(exe): return exe
    flags = ['-std=c++20', '-O1', '-DNDEBUG', '-DLOG_LEVEL=0', '-w', '-I', os.path.join(os.environ.get('VERIF_REPO', '/repo'), 'engine'), '-I', ctx.cfg]
    if sanitize: flags += ['-fsanitize=address,undefined', '-fno-omit-frame-pointer', '-g']
    ctx.sh(['g++'] + flags + srcs + ['-o', exe, '-lpthread'], timeout=1200)
    return exe


def uci_session(ctx, exe, lines, wait=3.0, env=None):
    import subprocess, time
    p = subprocess.Popen([exe], stdin=subprocess.PIPE, stdout=subprocess.PIPE, stderr=subprocess.STDOUT, env=env)
    for l in lines:
        if isinstance(l, float): time.sleep(l); continue
        p.stdin.write((l + '\n').encode()); p.stdin.flush()
    time.sleep(wait)
    try:
        p.stdin.write(b'quit\n'); p.stdin.flush()
    except Exception: pass
    try: out = p.communicate(timeout=20)[0].decode('utf-8', 'replace')
    except subprocess.TimeoutExpired:
        p.kill(); out = p.communicate()[0].decode('utf-8', 'replace') + '\n[killed]'
    return out
