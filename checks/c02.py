"""C02 - making a move follows the rules of chess (one-step check of Position::do_move against the mailbox reference)."""
import material, report
from checks import make_common as mc

def mats(tier):
    if tier == 'quick': return [material.parse(x) for x in ('KPk', 'Kkp', 'KRk', 'KNk', 'KRkr', 'KPkp')]
    t = material.M(4)
    t5 = [material.parse(x) for x in ('KRRkr', 'KRRkq', 'KPPkp', 'KRPkp', 'KPkrr', 'KQPkp', 'KBNkp', 'KRkpp', 'KPkpp', 'KRRkp')]
    return material.M(3) + t + t5

def check(ctx):
    ms = mats(ctx.tier)
    qs, ws = mc.build(ctx, 'CHECK_C02', ms, [], timeout=600 if ctx.tier == 'quick' else 2700)
    res = ctx.run_queries(qs + ws, label='c02')
    wit = [r for r in res if r.q.expect == 'witness']; res = [r for r in res if r.q.expect != 'witness']
    return report.finish(ctx, res, wit, replay=mc.replay('c02'), assumptions=mc.ASSUME,
        bounds={'material': [material.name(m) for m in ms], 'sides': 'both', 'squares/rights/en-passant/clocks/move': 'symbolic',
                'half_move_clock': '0..150', 'ply': '1..99999', 'outside': 'material sets not listed; FEN text formatting (iostream code, not encodable)'})
