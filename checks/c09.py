"""C09 - search limits are honoured: iterations consecutive, never deeper than requested, bestmove no later than iteration d, searchmoves respected, termination."""
import re, os
import report
from checks import search_common as sc

def check(ctx):
    m, res, wit, dmax = sc.run(ctx, 'C09', ['C09'])
    # Level B: the root node of search() as compiled -- its PV head is a root move (Level A's contract for the stubbed search)
    rb, wb = sc.run_b(ctx, 'C09', [(1, False, [], '')], ['C09'])
    res += rb; wit += wb
    START = 'a2a3 a2a4 b2b3 b2b4 c2c3 c2c4 d2d3 d2d4 e2e3 e2e4 f2f3 f2f4 g2g3 g2g4 h2h3 h2h4 b1a3 b1c3 g1f3 g1h3'.split()
    def replay(ctx, r):
        ce = r.ce('C09')
        exe = sc.native_engine(ctx)
        if r.q.name.startswith('h_search'):
            # a root answer outside the root list needs a table entry left by an earlier search of the same position: go, then go searchmoves without "position" in between
            o1 = sc.uci_session(ctx, exe, ['position startpos', 'go depth 6'], wait=4.0)
            bm = re.findall(r'^bestmove (\S+)', o1, re.M)
            runs = []; bad = False
            if bm:
                for d2 in (4, 6):
                    rest = [x for x in START if x != bm[-1]]
                    o2 = sc.uci_session(ctx, exe, ['position startpos', 'go depth 6', 4.0, 'go depth %d searchmoves %s' % (d2, ' '.join(rest))], wait=4.0)
                    b2 = re.findall(r'^bestmove (\S+)', o2, re.M); runs.append({'first': bm[-1], 'second go': 'depth %d searchmoves <all but %s>' % (d2, bm[-1]), 'bestmoves': b2})
                    if len(b2) == 2 and b2[-1] not in rest: bad = True
            path = report.save_replay(ctx, r.q.name, {'harness': r.q.name, 'node': ce, 'native_sessions': runs})
            return {'confirmed': True if bad else None, 'strict': True, 'key': 'root-pv-outside-root-moves', 'path': path,
                    'text': '%s: %s | native go / go searchmoves sessions: %s' % (r.q.name, '; '.join(d for _, d in r.failed[:2]), runs)}
        d = ce.get('ce_depth', 0)
        # the go command of the counterexample (searchmoves need a concrete position and are left out)
        go = 'go'
        if ce.get('ce_infinite'): go += ' infinite'
        if d > 0: go += ' depth %d' % d
        if ce.get('ce_movetime', 0) > 0: go += ' movetime %d' % max(ce.get('ce_movetime'), 3000)
        if ce.get('ce_nodes', 0) > 0: go += ' nodes %d' % max(ce.get('ce_nodes'), 10 ** 9)
        if ce.get('ce_tleft', 0) > 0: go += ' wtime %d btime %d' % (max(ce.get('ce_tleft'), 600000), max(ce.get('ce_tleft'), 600000))
        outs = []; bad = False; depths = []
        for fen in ('8/8/8/4k3/8/4K3/8/8 w - - 0 1', 'rnbqkbnr/pppppppp/8/8/8/8/PPPPPPPP/RNBQKBNR w KQkq - 0 1'):
            out = sc.uci_session(ctx, exe, ['position fen ' + fen, go], wait=4.0)
            depths = [int(x) for x in re.findall(r'^info depth (\d+)', out, re.M)]
            outs.append({'fen': fen, 'go': go, 'depths': depths})
            if depths != list(range(1, len(depths) + 1)) or (d > 0 and not ce.get('ce_infinite') and depths and depths[-1] > d): bad = True
        path = report.save_replay(ctx, r.q.name, {'harness': 'h_go', 'limits': ce, 'native_sessions': outs})
        return {'confirmed': bool(bad), 'key': 'depth-sequence', 'path': path, 'text': '%s | native "%s" reported iterations %s' % ('; '.join(x for _, x in r.failed[:2]), go, [o['depths'][:10] for o in outs])}
    return report.finish(ctx, res, wit, replay=replay,
        assumptions=sc.ASSUME + ['termination: the iteration loop is bounded by the depth limit (unwinding assertion of the outer loop); that the aspiration loop ends needs values strictly inside the infinite bounds (contract) -- '
                                 'its growth argument uses floating point and is not re-proved in this query',
                                 'that a real search of depth d visits finitely many nodes is not a solver claim'],
        bounds={'depth': '0..60 (0 = not given; the constructor that turns limits into depth/time is part of the encoded code); at most %d iterations complete' % dmax, 'searchmoves': '0..4 moves', 'other limits': 'symbolic'})
