"""C09 - search limits are honoured: iterations consecutive, never deeper than requested, bestmove no later than iteration d, searchmoves respected, termination."""
import re, os
import report
from checks import search_common as sc

def check(ctx):
    m, res, wit, dmax = sc.run(ctx, 'C09', ['C09'])
    def replay(ctx, r):
        ce = r.ce('C09')
        exe = sc.native_engine(ctx)
        d = ce.get('ce_depth', 0)
        # the go command of the counterexample (searchmoves need a concrete position and are left out)
        go = 'go'
        if ce.get('ce_infinite'): go += ' infinite'
        if d > 0: go += ' depth %d' % d
        if ce.get('ce_movetime', 0) > 0: go += ' movetime %d' % max(ce.get('ce_movetime'), 3000)
        if ce.get('ce_nodes', 0) > 0: go += ' nodes %d' % max(ce.get('ce_nodes'), 10 ** 9)
        if ce.get('ce_tleft', 0) > 0: go += ' wtime %d btime %d' % (max(ce.get('ce_tleft'), 600000), max(ce.get('ce_tleft'), 600000))
        outs = []; bad = False; depths = []
        for fen in ('8/8/8/4k3/8/4K3/8/8 w - - 0 1', 'rnbqkbnr/pppppppp/8/8/8/8/PPPPPPPP/RNBQKBNR w KQkq - 0 1'):
            out = sc.uci_session(ctx, exe, ['position fen ' + fen, go], wait=4.0)
            depths = [int(x) for x in re.findall(r'^info depth (\d+)', out, re.M)]
            outs.append({'fen': fen, 'go': go, 'depths': depths})
            if depths != list(range(1, len(depths) + 1)) or (d > 0 and not ce.get('ce_infinite') and depths and depths[-1] > d): bad = True
        path = report.save_replay(ctx, r.q.name, {'harness': 'h_go', 'limits': ce, 'native_sessions': outs})
        return {'confirmed': bool(bad), 'key': 'depth-sequence', 'path': path, 'text': '%s | native "%s" reported iterations %s' % ('; '.join(x for _, x in r.failed[:2]), go, [o['depths'][:10] for o in outs])}
    return report.finish(ctx, res, wit, replay=replay,
        assumptions=sc.ASSUME + ['termination: the iteration loop is bounded by the depth limit (unwinding assertion of the outer loop); that the aspiration loop ends needs values strictly inside the infinite bounds (contract) -- '
                                 'its growth argument uses floating point and is not re-proved in this query',
                                 'that a real search of depth d visits finitely many nodes is not a solver claim'],
        bounds={'depth': '0..60 (0 = not given; the constructor that turns limits into depth/time is part of the encoded code); at most %d iterations complete' % dmax, 'searchmoves': '0..4 moves', 'other limits': 'symbolic'})
