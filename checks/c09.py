"""C09 - search limits are honoured: iterations consecutive, never deeper than requested, bestmove no later than iteration d, searchmoves respected, termination."""
import re, os
import report
from checks import search_common as sc

def check(ctx):
    m, res, wit, dmax = sc.run(ctx, 'C09', ['C09'])
    def replay(ctx, r):
        ce = r.ce('C09')
        exe = sc.native_engine(ctx)
        d = max(1, ce.get('ce_depth', 1))
        out = sc.uci_session(ctx, exe, ['position fen 8/8/8/4k3/8/4K3/8/8 w - - 0 1', 'go depth %d' % d], wait=3.0)
        depths = [int(x) for x in re.findall(r'^info depth (\d+)', out, re.M)]
        bad = depths != list(range(1, len(depths) + 1)) or (depths and depths[-1] > d)
        path = report.save_replay(ctx, r.q.name, {'harness': 'h_go', 'limits': ce, 'native_depths': depths})
        return {'confirmed': bool(bad), 'key': 'depth-sequence', 'path': path, 'text': '%s | native go depth %d reported iterations %s' % ('; '.join(x for _, x in r.failed[:2]), d, depths[:8])}
    return report.finish(ctx, res, wit, replay=replay,
        assumptions=sc.ASSUME + ['termination: the iteration loop is bounded by the depth limit (unwinding assertion of the outer loop); that the aspiration loop ends needs values strictly inside the infinite bounds (contract) -- '
                                 'its growth argument uses floating point and is not re-proved in this query',
                                 'that a real search of depth d visits finitely many nodes is not a solver claim'],
        bounds={'depth': '0..60 (0 = not given; the constructor that turns limits into depth/time is part of the encoded code); at most %d iterations complete' % dmax, 'searchmoves': '0..4 moves', 'other limits': 'symbolic'})
