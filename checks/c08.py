"""C08 - mates are played and mate announcements are true: the inductive step at one search node (Level B) and the formatting of mate scores."""
import re, os
from pipeline import Query, Broken, VERIF
import report
from checks import search_common as sc

S2S = '_ZN6engine9score2strB5cxx11El'

def score2str_queries(ctx):
    m = ctx.module(['search'], tag='S2S')
    ts = [f[1:] for f in m.funcs if f.startswith('@_ZNSt7__cxx119to_stringE')]
    pl = [f[1:] for f in m.funcs if f.startswith('@_ZStplIcSt11char_traitsIcESaIcEENSt7__cxx1112basic_stringIT_T0_T1_EEPKS5_OS8_')]
    dt = '_ZNSt7__cxx1112basic_stringIcSt11char_traitsIcESaIcEED2Ev'
    c, h, info = ctx.translate(m, [S2S], stubs=ts + pl + [dt], out='engs')
    header = open(h).read(); open(ctx.path('eng.h'), 'w').write(header)
    glue = []
    for f in ts: glue.append(sc.proto_stub(header, f, 'ts_calls++; ts_arg = (int64_t)v_1;'))
    for f in pl: glue.append(sc.proto_stub(header, f, 'prefix0 = v_1[0]; if (prefix0 == 109) prefix5 = v_1[5];'))
    glue.append(sc.proto_stub(header, dt, ''))
    open(ctx.path('score2str_glue.h'), 'w').write('\n'.join(glue) + '\n')
    hp = os.path.join(VERIF, 'harness', 'score2str.c')
    gb = ctx.gotocc('s2s', [c, hp]); gbw = ctx.gotocc('s2sw', [c, hp], ['WITNESS'])
    smp = {'harness': 'h_score2str', 'score': 'all values in [-VALUE_MATE, VALUE_MATE] (symbolic)'}
    return [Query('h_score2str', gb, 'h_score2str', {}, timeout=600, sample=smp)], [Query('w_h_score2str', gbw, 'h_score2str', {}, timeout=600, meta={'of': 'h_score2str'}, expect='witness')]

def check(ctx):
    quick = ctx.tier == 'quick'
    specs = [(1, False, [], ''), (1, False, ['MATE_IN_ONE'], '_mate1'), (2, False, [], ''), (2, True, [], '')]
    if not quick: specs += [(20, False, [], ''), (40, False, [], ''), (41, True, [], '')]
    res, wit = sc.run_b(ctx, 'C08', specs, ['C08'])
    q2, w2 = score2str_queries(ctx) if not ctx.only or re.search(ctx.only, 'score2str') else ([], [])
    r2 = ctx.run_queries(q2 + w2, label='c08s')
    res += [r for r in r2 if r.q.expect != 'witness']; wit += [r for r in r2 if r.q.expect == 'witness']
    def replay(ctx, r):
        ce = r.ce('C08')
        exe = sc.native_engine(ctx)
        if r.q.name == 'h_score2str':
            out = sc.uci_session(ctx, exe, ['position fen 6k1/5ppp/8/8/8/8/8/R3K2R w - - 0 1', 'go depth 5'], wait=4.0)
            mm = re.findall(r'score mate (-?\d+)', out)
            out2 = sc.uci_session(ctx, exe, ['position fen 7k/8/8/8/8/8/R7/1R2K3 w - - 0 1', 'go depth 5'], wait=4.0)
            mm2 = re.findall(r'score mate (-?\d+)', out2)
            bad = (mm and mm[-1] != '1') or (mm2 and mm2[-1] != '2')
            path = report.save_replay(ctx, r.q.name, {'harness': r.q.name, 'score': ce.get('ce_score'), 'number_formatted': ce.get('ce_arg'), 'native': {'mate-in-1 position announces': mm[-1:] , 'mate-in-2 position announces': mm2[-1:]}})
            return {'confirmed': bool(bad), 'key': 'mate-distance-units', 'path': path, 'text': 'score %s is printed with the number %s | native: mate-in-1 announced as %s, mate-in-2 as %s' % (ce.get('ce_score'), ce.get('ce_arg'), mm[-1:], mm2[-1:])}
        # node-level counterexamples: replay the known symptom sessions (false mate announcements after a fully pruned node)
        out = sc.uci_session(ctx, exe, ['position fen 8/4k3/p7/P7/PP4KN/8/8/8 w - - 0 1', 'go depth 4'], wait=4.0)
        false_mate = re.findall(r'score mate (-?\d+)', out)
        # ... and positions whose mate distance is known (the mating line ends with captures, so it runs through quiescence nodes)
        KNOWN = [('r5k1/5ppp/8/8/8/8/4Q3/4R1K1 w - - 0 1', 2), ('4r1k1/4q3/8/8/8/8/5PPP/R5K1 b - - 0 1', 2), ('6k1/5ppp/8/8/8/8/8/R3K2R w - - 0 1', 1)]
        wrong = []
        for fen, want in KNOWN:
            for d in (1, 2, 3):
                o = sc.uci_session(ctx, exe, ['position fen ' + fen, 'go depth %d' % d], wait=1.5)
                for mm in re.findall(r'score mate (-?\d+)', o):
                    if int(mm) != want: wrong.append('%s depth %d: announced mate %s, true distance %d' % (fen, d, mm, want))
        if wrong: false_mate = false_mate + wrong[:3]
        path = report.save_replay(ctx, r.q.name, {'harness': r.q.name, 'node': ce, 'native_info_lines': [l for l in out.split('\n') if l.startswith('info')][:6], 'known-distance positions announced wrongly': wrong})
        return {'confirmed': True if false_mate else None, 'strict': True, 'key': 'node-' + re.sub(r'[^a-z0-9]+', '-', (r.failed[0][1] if r.failed else '').lower())[:40], 'path': path,
                'text': '%s: %s | node %s | native: false/wrong mate announcements (8/4k3/p7/P7/PP4KN/8/8/8 w depth 4; three positions of known mate distance, depth 1..3): %s' % (r.q.name, '; '.join(d for _, d in r.failed[:2]), {k: ce.get(k) for k in ('ce_depth', 'ce_alpha', 'ce_beta', 'ce_result', 'ce_nlist', 'ce_incheck', 'ce_nchildren')}, false_mate)}
    return report.finish(ctx, res, wit, replay=replay,
        assumptions=sc.ASSUME_B + ['C08 is claimed as an inductive step only: (i) values stay in [-VALUE_MATE, VALUE_MATE] (no +-infinity that a parent would read as a mate), (ii) a node without legal moves returns lost_in(0) only when in check, '
                                   '(iii) at the root a mating move (its child returns lost_in(0); it gives check) becomes PV head with value win_in(1) for every ordering and every value of the other moves, with a table miss, '
                                   '(iv) score2str prints ceil(plies/2) moves. NOT claimed: the existence of a forced mate behind every announced mate score for whole searches (needs an independent mate solver; whole-program property)',
                                   'score2str: std::to_string and operator+ are recording stubs'],
        bounds={'moves at the node': '0..2 (quick) / 0..3 (thorough)', 'stack indices': [s[0] for s in specs], 'depth': '0..41', 'window': 'any alpha < beta in [-VALUE_INFINITE, VALUE_INFINITE]'})
