"""C19 - book lookups return what the book says (in-memory part: decode_move, weighted random sampling, best move)."""
import re, os
from pipeline import Query, Broken, VERIF
import layout, report
from checks.search_common import proto_stub

TUS = ['polyglot', 'position', 'types']
ENTRIES = ['_ZNK6engine12PolyglotBook15get_random_moveEmRKNS_8PositionE', '_ZNK6engine12PolyglotBook13get_best_moveEmRKNS_8PositionE', '_ZNK6engine12PolyglotBook11decode_moveEjRKNS_8PositionE']

NREC = 3
CTOR = '_ZN6engine12PolyglotBookC2ENSt7__cxx1112basic_stringIcSt11char_traitsIcESaIcEEEm'

def build_loader(ctx, m):
    """the file-reader harness: constructor as compiled, library surface stubbed by generated definitions"""
    if ctx.only and not re.search(ctx.only, 'h_load'): return [], []
    names = [k[1:] if k.startswith('@') else k for k in m.funcs]
    REQUIRED = ('index', 'push_back', 'read', 'if_ctor', 'bool')
    MAP = r'^_ZNSt3mapImSt6vectorISt4pairIjiESaIS2_EESt4lessImESaIS1_IKmS4_EEE'; MAPC = MAP.replace('^_ZNSt3map', '^_ZNKSt3map')
    VECT = r'^_ZNSt6vectorISt4pairIjiESaIS1_EE'
    RX = {'map_ctor': MAP + 'C2Ev$', 'map_dtor': MAP + 'D2Ev$', 'find': MAP + '4findERS7_$', 'end': MAP + '3endEv$', 'index': MAP + 'ixERS7_$',
          'iter_eq': r'^_ZSteqRKSt17_Rb_tree_iteratorISt4pairIKmSt6vector', 'vec_ctor': VECT + 'C2Ev$', 'vec_dtor': VECT + 'D2Ev$', 'vec_assign': VECT + 'aSEOS3_$',
          'push_back': VECT + '9push_backEOS1_$', 'mt': r'^_ZNSt23mersenne_twister_engine.*C2Em$', 'dist': r'^_ZNSt24uniform_int_distributionImEC2Ev$',
          'fpos': r'^_ZNSt4fposI11__mbstate_tEC2El$', 'if_ctor': r'^_ZNSt14basic_ifstreamIcSt11char_traitsIcEEC1ERKNSt7__cxx1112basic_string', 'if_dtor': r'^_ZNSt14basic_ifstreamIcSt11char_traitsIcEED1Ev$',
          'bool': r'^_ZNKSt9basic_iosIcSt11char_traitsIcEEcvbEv$', 'read': r'^_ZNSi4readEPcl$', 'seekg': r'^_ZNSi5seekgESt4fposI11__mbstate_tE$',
          'map_empty': MAPC + '5emptyEv$', 'map_size': MAPC + '4sizeEv$', 'map_count': MAPC + '5countERS7_$'}
    S = {}
    for k, rx in RX.items():
        got = [f for f in names if re.search(rx, f)]
        if len(got) == 1: S[k] = got[0]
        elif k in REQUIRED or len(got) > 1: raise Broken('library surface of the PolyglotBook constructor changed: %s -> %s' % (rx, got))
        # members the current code does not use are simply absent from the module: nothing to model
    c, h, info = ctx.translate(m, [CTOR], stubs=list(S.values()), out='ld')
    header = open(h).read()
    if CTOR not in header: raise Broken('PolyglotBook(path, seed) constructor not found')
    B = {'map_ctor': '', 'map_dtor': '', 'vec_ctor': '', 'vec_dtor': '', 'mt': '', 'dist': '', 'fpos': '', 'if_dtor': '',
         'if_ctor': '*(uint8_t **)v_0 = (uint8_t *)&FAKE_VT[3]; failed = !open_ok; fpos = 0;',
         'seekg': 'return v_0;',
         'bool': 'return !failed;',
         'read': 'if (failed) return v_0; uint32_t rest = flen - fpos; uint32_t k = v_2 <= rest ? (uint32_t)v_2 : rest; for (uint32_t i = 0; i < 16; i++) if (i < k) v_1[i] = FILEB[(fpos + i) % (FMAX + 1)]; fpos += k; if (k < v_2) failed = 1; return v_0;',
         'find': 'return &NODES[seen_idx(*v_1)];', 'end': 'return &NODES[NOUT];',
         'iter_eq': 'return v_0->f0 == v_1->f0;',
         'index': 'cur_key = *v_1; if (seen_idx(cur_key) == NOUT) { for (int i = 0; i < NOUT; i++) if (i == n_seen) SEEN[i] = cur_key; n_seen++; } return &VEC;',
         'vec_assign': 'for (int i = 0; i < NOUT; i++) if (i < n_out && OUT[i].key == cur_key) dropped = 1; return v_0;',
         'map_empty': 'return n_seen == 0;', 'map_size': 'return (uint64_t)n_seen;', 'map_count': 'return seen_idx(*v_1) != NOUT;',
         'push_back': 'for (int i = 0; i < NOUT; i++) if (i == n_out) { OUT[i].key = cur_key; OUT[i].move = v_1->f0; OUT[i].weight = (int32_t)v_1->f1; } n_out++;'}
    glue = ['#define LOADER %s' % CTOR] + [proto_stub(header, S[k], B[k]) for k in B if k in S and (k in REQUIRED or re.search(r'\b%s\(' % re.escape(S[k]), header))]   # members the constructor does not call have no prototype in the translation
    open(ctx.path('c19_load_stubs.h'), 'w').write('\n'.join(glue) + '\n')
    open(ctx.path('eng.h'), 'w').write('#include "ld.h"\n')
    hp = os.path.join(VERIF, 'harness', 'c19_load.c')
    D = ['NREC=%d' % NREC]
    gb = ctx.gotocc('c19ld', [c, hp], D); gbw = ctx.gotocc('c19ldw', [c, hp], D + ['WITNESS'])
    us = {'h_load.0': NREC * 16 + 17, 'h_load.1': NREC + 1, 'seen_idx.0': NREC + 3, 'be.0': 9, CTOR + '.0': NREC + 3}
    smp = {'harness': 'h_load', 'file': 'arbitrary bytes, length 0..%d (or cannot be opened)' % (NREC * 16 + 15), 'entry': 'PolyglotBook::PolyglotBook(path, seed) as compiled'}
    return ([Query('h_load', gb, 'h_load', us, timeout=900, sample=smp)],
            [Query('w_h_load', gbw, 'h_load', us, timeout=900, meta={'of': 'h_load'}, expect='witness', max_unwind={'*': 70})])


def check(ctx):
    m = ctx.module(TUS)
    rng = [k for k in m.funcs if 'uniform_int_distribution' in k and 'clI' in k and 'mersenne' in k and k.endswith('EEEEmRT_')]
    at = [k for k in m.funcs if '_ZNKSt3mapIm' in k and '2atE' in k]
    if len(rng) != 1 or len(at) != 1: raise Broken('library surface of get_random_move changed: rng=%s at=%s' % (rng, at))
    c, h, info = ctx.translate(m, ENTRIES, stubs=[rng[0][1:], at[0][1:]])
    # struct definitions of Position for the harness come from the generated header; expose only those
    layout.field_header(ctx, m, [layout.POSITION_FIELDS], ['position.h'])
    open(ctx.path('eng_pos.h'), 'w').write('#include "eng.h"\n')
    hp = os.path.join(VERIF, 'harness', 'c19.c')
    nw = 3 if ctx.tier == 'quick' else 5
    D = ['NW=%d' % nw, 'RNG_STUB=' + rng[0][1:]]
    st = os.path.join(VERIF, 'harness', 'c19_stubs.c')
    gb = ctx.gotocc('c19', [c, hp, st], D); gbw = ctx.gotocc('c19w', [c, hp, st], D + ['WITNESS'])
    names = [n for n in ('h_decode', 'h_random', 'h_best') if not ctx.only or re.search(ctx.only, n)]
    us = {'minimal_position.0': 65, 'setup.0': nw + 1, 'h_random.0': nw + 1, 'h_random.1': nw + 1, 'h_best.0': nw + 1, 'h_best.1': nw + 1}
    qs = [Query(n, gb, n, us, timeout=900, sample={'harness': n, 'entries': '1..%d with symbolic moves and 16-bit weights' % nw, 'random value': 'arbitrary value below the total weight (covers every sample 0..total-1; the reduction of larger draws by the plain integer % is executed but only on such inputs)', 'board': 'arbitrary'}, max_unwind={'*': 70}) for n in names]
    ws = [Query('w_' + n, gbw, n, us, timeout=900, meta={'of': n}, expect='witness', max_unwind={'*': 70}) for n in names]
    lq, lw = build_loader(ctx, m)
    res = ctx.run_queries(qs + ws + lq + lw, label='c19')
    wit = [r for r in res if r.q.expect == 'witness']; res = [r for r in res if r.q.expect != 'witness']
    def replay(ctx, r):
        ce = r.ce()
        if r.q.name == 'h_load':
            fl = ce.get('ce_flen', 0); by = ce.get('ce_file', {}); data = bytes((by.get(i, 0) & 255) for i in range(fl))
            fp = ctx.path('replay_book.bin')
            if ce.get('ce_open', 1): open(fp, 'wb').write(data)
            elif os.path.exists(fp): os.remove(fp)
            exe = ctx.native_bin('book_load_replay', [os.path.join(VERIF, 'native', 'book_load_replay.cpp')], ['polyglot', 'position', 'movegen', 'move_bitboards', 'bithacks', 'types', 'zobrist_hash', 'bitbase', 'endgame'])
            out = ctx.sh([exe, fp], ok=(0, 1))
            key = 'loader: file of %d bytes%s' % (fl, '' if ce.get('ce_open', 1) else ' (cannot be opened)')
            path = report.save_replay(ctx, r.q.name, {'harness': r.q.name, 'file_length': fl, 'file_opens': bool(ce.get('ce_open', 1)), 'file_hex': data.hex(), 'records_loaded_in_model': ce.get('ce_nout'), 'native_output': out.strip().split('\n')})
            return {'confirmed': 'REPRODUCED' in out and 'NOT-REPRODUCED' not in out, 'key': 'loader', 'path': path,
                    'text': 'h_load: %s -> %s records in the model (complete records: %d) | native: %s' % (key, ce.get('ce_nout'), fl // 16 if ce.get('ce_open', 1) else 0, out.strip().replace('\n', ' / ')[:300])}
        n = ce.get('ce_n', 1); ws_ = [ce.get('ce_w', {}).get(i, 0) for i in range(n)]; ms = [ce.get('ce_m', {}).get(i, 0) for i in range(n)]
        if r.q.name == 'h_random':
            exe = ctx.native_bin('book_replay', [os.path.join(VERIF, 'native', 'book_replay.cpp')], ['polyglot', 'position', 'movegen', 'move_bitboards', 'bithacks', 'types', 'zobrist_hash', 'bitbase', 'endgame'])
            out = ctx.sh([exe, ctx.path('replay.bin')] + [str(x) for x in ws_], ok=(0, 1))
            path = report.save_replay(ctx, r.q.name, {'harness': r.q.name, 'weights': ws_, 'sample_value': ce.get('ce_rnd'), 'native_output': out.strip().split('\n')})
            return {'confirmed': 'REPRODUCED' in out and 'NOT-REPRODUCED' not in out, 'key': 'sampler', 'path': path,
                    'text': 'h_random: weights %s random value %s selects index %s by the rules | native: %s' % (ws_, ce.get('ce_rnd'), ce.get('ce_pick'), out.strip().replace('\n', ' / ')[:300])}
        path = report.save_replay(ctx, r.q.name, {'harness': r.q.name, 'inputs': ce})
        return {'confirmed': None, 'strict': True, 'key': r.q.name, 'path': path, 'text': '%s: %s %s' % (r.q.name, '; '.join(d for _, d in r.failed[:2]), {'moves': ms, 'weights': ws_})}
    return report.finish(ctx, res, wit, replay=replay,
        assumptions=['std::map::at replaced by a stub returning a harness-built vector; the Mersenne twister / uniform_int_distribution replaced by an arbitrary 64-bit value',
                     'file reader (h_load): the PolyglotBook constructor as compiled; std::ifstream replaced by a model (file = arbitrary bytes of arbitrary length 0..%d or unopenable; read copies min(n, rest) bytes and sets the fail state on a short read; operator bool = !fail), std::map / std::vector by recording stubs; NOT covered: libstdc++ itself, books longer than %d records, ' % (NREC * 16 + 15, NREC),
                     'the (negligible) modulo bias of reducing a 64-bit draw modulo the total weight'],
        bounds={'entries per key': '1..%d' % nw, 'weights': '0..65535 each (total > 0)', 'moves': 'any 15-bit stored move', 'board': 'arbitrary piece on every square'})
