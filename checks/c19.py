"""C19 - book lookups return what the book says (in-memory part: decode_move, weighted random sampling, best move)."""
import re, os
from pipeline import Query, Broken, VERIF
import layout, report

TUS = ['polyglot', 'position', 'types']
ENTRIES = ['_ZNK6engine12PolyglotBook15get_random_moveEmRKNS_8PositionE', '_ZNK6engine12PolyglotBook13get_best_moveEmRKNS_8PositionE', '_ZNK6engine12PolyglotBook11decode_moveEjRKNS_8PositionE']

def check(ctx):
    m = ctx.module(TUS)
    rng = [k for k in m.funcs if 'uniform_int_distribution' in k and 'clI' in k and 'mersenne' in k and k.endswith('EEEEmRT_')]
    at = [k for k in m.funcs if '_ZNKSt3mapIm' in k and '2atE' in k]
    if len(rng) != 1 or len(at) != 1: raise Broken('library surface of get_random_move changed: rng=%s at=%s' % (rng, at))
    c, h, info = ctx.translate(m, ENTRIES, stubs=[rng[0][1:], at[0][1:]])
    # struct definitions of Position for the harness come from the generated header; expose only those
    layout.field_header(ctx, m, [layout.POSITION_FIELDS], ['position.h'])
    open(ctx.path('eng_pos.h'), 'w').write('#include "eng.h"\n')
    hp = os.path.join(VERIF, 'harness', 'c19.c')
    nw = 3 if ctx.tier == 'quick' else 5
    D = ['NW=%d' % nw, 'RNG_STUB=' + rng[0][1:]]
    st = os.path.join(VERIF, 'harness', 'c19_stubs.c')
    gb = ctx.gotocc('c19', [c, hp, st], D); gbw = ctx.gotocc('c19w', [c, hp, st], D + ['WITNESS'])
    names = [n for n in ('h_decode', 'h_random', 'h_best') if not ctx.only or re.search(ctx.only, n)]
    us = {'minimal_position.0': 65, 'setup.0': nw + 1, 'h_random.0': nw + 1, 'h_random.1': nw + 1, 'h_best.0': nw + 1, 'h_best.1': nw + 1}
    qs = [Query(n, gb, n, us, timeout=900, sample={'harness': n, 'entries': '1..%d with symbolic moves and 16-bit weights' % nw, 'random value': 'arbitrary value below the total weight (covers every sample 0..total-1; the reduction of larger draws by the plain integer % is executed but only on such inputs)', 'board': 'arbitrary'}, max_unwind={'*': 70}) for n in names]
    ws = [Query('w_' + n, gbw, n, us, timeout=900, meta={'of': n}, expect='witness', max_unwind={'*': 70}) for n in names]
    res = ctx.run_queries(qs + ws, label='c19')
    wit = [r for r in res if r.q.expect == 'witness']; res = [r for r in res if r.q.expect != 'witness']
    def replay(ctx, r):
        ce = r.ce()
        n = ce.get('ce_n', 1); ws_ = [ce.get('ce_w', {}).get(i, 0) for i in range(n)]; ms = [ce.get('ce_m', {}).get(i, 0) for i in range(n)]
        if r.q.name == 'h_random':
            exe = ctx.native_bin('book_replay', [os.path.join(VERIF, 'native', 'book_replay.cpp')], ['polyglot', 'position', 'movegen', 'move_bitboards', 'bithacks', 'types', 'zobrist_hash', 'bitbase', 'endgame'])
            out = ctx.sh([exe, ctx.path('replay.bin')] + [str(x) for x in ws_], ok=(0, 1))
            path = report.save_replay(ctx, r.q.name, {'harness': r.q.name, 'weights': ws_, 'sample_value': ce.get('ce_rnd'), 'native_output': out.strip().split('\n')})
            return {'confirmed': 'REPRODUCED' in out and 'NOT-REPRODUCED' not in out, 'key': 'sampler', 'path': path,
                    'text': 'h_random: weights %s random value %s selects index %s by the rules | native: %s' % (ws_, ce.get('ce_rnd'), ce.get('ce_pick'), out.strip().replace('\n', ' / ')[:300])}
        path = report.save_replay(ctx, r.q.name, {'harness': r.q.name, 'inputs': ce})
        return {'confirmed': None, 'strict': True, 'key': r.q.name, 'path': path, 'text': '%s: %s %s' % (r.q.name, '; '.join(d for _, d in r.failed[:2]), {'moves': ms, 'weights': ws_})}
    return report.finish(ctx, res, wit, replay=replay,
        assumptions=['std::map::at replaced by a stub returning a harness-built vector; the Mersenne twister / uniform_int_distribution replaced by an arbitrary 64-bit value',
                     'NOT covered: the file reader loop of the PolyglotBook constructor (std::ifstream / std::map insertion code cannot be lowered by the translator); '
                     'the (negligible) modulo bias of reducing a 64-bit draw modulo the total weight'],
        bounds={'entries per key': '1..%d' % nw, 'weights': '0..65535 each (total > 0)', 'moves': 'any 15-bit stored move', 'board': 'arbitrary piece on every square'})
