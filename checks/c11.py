"""C11 - attack tables are exact for every square and occupancy.

Encoded (as compiled by clang from /repo): slider_attack<BISHOP|ROOK|QUEEN> (mask, 64-bit multiply by the magic,
shift, table load), shift<dir> for every instantiated direction, shift(bb, dir), pawn_attacks(bb, side).
Tables (RAYS, *_MASK, LINES, FULL_LINES, CASTLING_PATHS, ROOK/BISHOP_TABLE) are dumped from the real init() of
/repo's current sources on every run.  Occupancy is a free 64-bit vector; squares of the leaper/line tables are
symbolic."""
import re, os
from pipeline import Query, Broken, VERIF
import report

TUS = ['movegen', 'position', 'move_bitboards']
SL = {3: '_ZN6engine13slider_attackILNS_9PieceKindE3EEEmNS_6SquareEm', 4: '_ZN6engine13slider_attackILNS_9PieceKindE4EEEmNS_6SquareEm',
      5: '_ZN6engine13slider_attackILNS_9PieceKindE5EEEmNS_6SquareEm'}
DIRS = {8: ('N', 1, 0), -8: ('S', -1, 0), 1: ('E', 0, 1), -1: ('W', 0, -1), 9: ('NE', 1, 1), 7: ('NW', 1, -1), -7: ('SE', -1, 1), -9: ('SW', -1, -1),
        16: ('NN', 2, 0), -16: ('SS', -2, 0)}


def check(ctx):
    m = ctx.module(TUS)
    tables = ctx.dump_tables()
    shifts = {}
    for name in m.funcs:
        mm = re.match(r'@_ZN6engine5shiftILNS_9DirectionE(n?)(\d+)EEEmm$', name)
        if mm and not m.funcs[name].decl: shifts[(-1 if mm.group(1) else 1) * int(mm.group(2))] = name[1:]
    entries = list(SL.values()) + list(shifts.values()) + ['_ZN6engine12pawn_attacksEmNS_5ColorE', '_ZN6engine5shiftEmNS_9DirectionE']
    glob = ['_ZN6engine4RAYSE', '_ZN6engine11KNIGHT_MASKE', '_ZN6engine9KING_MASKE', '_ZN6engine5LINESE', '_ZN6engine10FULL_LINESE',
            '_ZN6engine14CASTLING_PATHSE', '_ZN6engine20QUEEN_CASTLING_BLOCKE']
    sl_entries = list(SL.values())
    tb_entries = list(shifts.values()) + ['_ZN6engine12pawn_attacksEmNS_5ColorE', '_ZN6engine5shiftEmNS_9DirectionE']
    c_sl, _, _ = ctx.translate(m, sl_entries, overrides=tables, out='eng_sl')
    c_tb, _, _ = ctx.translate(m, tb_entries, overrides=tables, globals_=glob, out='eng_tb')
    PRE = ['uint64_t nondet_u64(void); uint32_t nondet_u32(void);',
           '#ifdef WITNESS', '#define PROP(c, msg) do { __CPROVER_assert(0, "witness"); __CPROVER_assume(0); } while (0)', '#else',
           '#define PROP(c, msg) __CPROVER_assert(c, msg)', '#endif',
           'uint64_t ce_occ, ce_got, ce_want; uint32_t ce_a, ce_b;']
    # ---- slider harnesses: GROUP squares per solver query (the 2 MB tables dominate the per-process cost, the
    # per-square formula is tiny); every square has its own assertion and its own free 64-bit occupancy
    GROUP = 8
    S = ['#include "eng_sl.h"', '#include "c11_spec.h"'] + PRE
    S.append('#define SLIDER(fn, sq, rook, bishop, msg) { uint64_t occ = nondet_u64(); uint64_t got = fn(sq, occ), want = spec_slider(sq, occ, rook, bishop); '
             'if (got != want) { ce_a = sq; ce_occ = occ; ce_got = got; ce_want = want; } PROP(got == want, msg); }')
    sl_names = []
    for kind, nm, rook, bishop in ((4, 'rook', 1, 0), (3, 'bishop', 0, 1), (5, 'queen', 1, 1)):
        for g in range(0, 64, GROUP):
            fn = 'h_%s_%d_%d' % (nm, g, g + GROUP - 1)
            body = ' '.join('SLIDER(%s, %d, %d, %d, "C11 %s attack set on square %d equals the ray walk to the first blocker")' % (SL[kind], sq, rook, bishop, nm, sq)
                            for sq in range(g, g + GROUP))
            S.append('void %s(void) { %s }' % (fn, body))
            sl_names.append((fn, {'kind': nm, 'squares': '%d..%d' % (g, g + GROUP - 1), 'occupancy': 'arbitrary 64-bit per square'}))
    hs = ctx.path('h_c11_sl.c'); open(hs, 'w').write('\n'.join(S) + '\n')
    # ---- table / shift harnesses (no magic tables in this binary)
    H = ['#include "eng_tb.h"', '#include "c11_spec.h"'] + PRE
    names = []
    def tab(fn, body, sample):
        H.append('void %s(void) { uint32_t a = nondet_u32(), b = nondet_u32(); __CPROVER_assume(a < 64 && b < 64); ce_a = a; ce_b = b; %s }' % (fn, body))
        names.append((fn, sample))
    tab('h_knight_mask', 'ce_got = _ZN6engine11KNIGHT_MASKE[a]; ce_want = spec_leaper(a, 1); PROP(ce_got == ce_want, "C11 KNIGHT_MASK");', {'table': 'KNIGHT_MASK', 'square': 'symbolic'})
    tab('h_king_mask', 'ce_got = _ZN6engine9KING_MASKE[a]; ce_want = spec_leaper(a, 0); PROP(ce_got == ce_want, "C11 KING_MASK");', {'table': 'KING_MASK', 'square': 'symbolic'})
    tab('h_rays', 'uint32_t r = b & 7; ce_b = r; ce_got = _ZN6engine4RAYSE[r][a]; ce_want = spec_ray(r, a); PROP(ce_got == ce_want, "C11 RAYS");', {'table': 'RAYS', 'ray,square': 'symbolic'})
    tab('h_lines', 'ce_got = _ZN6engine5LINESE[a][b]; ce_want = spec_segment(a, b); PROP(ce_got == ce_want, "C11 LINES (between, inclusive)");', {'table': 'LINES', 'squares': 'symbolic pair'})
    tab('h_full_lines', 'ce_got = _ZN6engine10FULL_LINESE[a][b]; ce_want = spec_full_line(a, b); PROP(ce_got == ce_want, "C11 FULL_LINES");', {'table': 'FULL_LINES', 'squares': 'symbolic pair'})
    tab('h_castling', 'PROP(_ZN6engine14CASTLING_PATHSE[1] == 0x60ULL && _ZN6engine14CASTLING_PATHSE[2] == 0x0CULL && _ZN6engine14CASTLING_PATHSE[4] == 0x6000000000000000ULL '
        '&& _ZN6engine14CASTLING_PATHSE[8] == 0x0C00000000000000ULL && _ZN6engine20QUEEN_CASTLING_BLOCKE[0] == 2ULL && _ZN6engine20QUEEN_CASTLING_BLOCKE[1] == (2ULL << 56), '
        '"C11 castling path squares: f,g / c,d must be safe and empty, b empty");', {'table': 'CASTLING_PATHS, QUEEN_CASTLING_BLOCK'})
    # shift<dir>: every set bit moves by (dr, df) and drops off the board edge, nothing wraps
    H.append('static uint64_t spec_shift(uint64_t bb, int dr, int df) { uint64_t o = 0; for (int q = 0; q < 64; q++) if (bb >> q & 1) { int r = (q >> 3) + dr, f = (q & 7) + df; '
             'if (r >= 0 && r < 8 && f >= 0 && f < 8) o |= 1ULL << (r * 8 + f); } return o; }')
    for d, fnname in sorted(shifts.items()):
        if d not in DIRS: raise Broken('unknown shift direction %d' % d)
        nm, dr, df = DIRS[d]
        fn = 'h_shift_%s' % nm
        H.append('void %s(void) { uint64_t bb = nondet_u64(); ce_occ = bb; ce_got = %s(bb); ce_want = spec_shift(bb, %d, %d); PROP(ce_got == ce_want, "C11 shift<%s>"); }' % (fn, fnname, dr, df, nm))
        names.append((fn, {'function': 'shift<%s>' % nm, 'bitboard': 'arbitrary 64-bit'}))
        fn = 'h_shiftdyn_%s' % nm
        H.append('void %s(void) { uint64_t bb = nondet_u64(); ce_occ = bb; ce_got = _ZN6engine5shiftEmNS_9DirectionE(bb, (uint32_t)(%d)); ce_want = spec_shift(bb, %d, %d); PROP(ce_got == ce_want, "C11 shift(bb,%s)"); }' % (fn, d, dr, df, nm))
        names.append((fn, {'function': 'shift(bb, %s)' % nm, 'bitboard': 'arbitrary 64-bit'}))
    for side, dr in ((0, 1), (1, -1)):
        fn = 'h_pawn_attacks_%d' % side
        H.append('void %s(void) { uint64_t bb = nondet_u64(); ce_occ = bb; ce_got = _ZN6engine12pawn_attacksEmNS_5ColorE(bb, %d); ce_want = spec_shift(bb, %d, 1) | spec_shift(bb, %d, -1); '
                 'PROP(ce_got == ce_want, "C11 pawn attack set"); }' % (fn, side, dr, dr))
        names.append((fn, {'function': 'pawn_attacks', 'side': side, 'pawns': 'arbitrary 64-bit'}))
    hp = ctx.path('h_c11_tb.c'); open(hp, 'w').write('\n'.join(H) + '\n')
    from concurrent.futures import ThreadPoolExecutor
    with ThreadPoolExecutor(4) as ex:
        f1 = ex.submit(ctx.gotocc, 'c11sl', [c_sl, hs]); f2 = ex.submit(ctx.gotocc, 'c11slw', [c_sl, hs], ['WITNESS'])
        f3 = ex.submit(ctx.gotocc, 'c11tb', [c_tb, hp]); f4 = ex.submit(ctx.gotocc, 'c11tbw', [c_tb, hp], ['WITNESS'])
        gsl, gslw, gtb, gtbw = f1.result(), f2.result(), f3.result(), f4.result()
    us = {'spec_slider.0': 8, 'spec_slider.1': 9, 'spec_leaper.0': 9, 'spec_ray.0': 8, 'spec_segment.0': 9, 'spec_full_line.0': 65, 'spec_shift.0': 65}
    allq = [(fn, smp, gsl, gslw) for fn, smp in sl_names] + [(fn, smp, gtb, gtbw) for fn, smp in names]
    if ctx.only: allq = [n for n in allq if re.search(ctx.only, n[0])]
    qs = [Query(fn, gb, fn, us, timeout=600, sample=smp) for fn, smp, gb, _ in allq]
    ws = [Query('w_' + fn, gbw, fn, us, timeout=300, sample=smp, meta={'of': fn}, expect='witness') for fn, smp, _, gbw in allq]
    res = ctx.run_queries(qs + ws, par=8, label='c11')
    wit = [r for r in res if r.q.expect == 'witness']; res = [r for r in res if r.q.expect != 'witness']
    def replay(ctx, r):
        ce = r.ce()
        sqn = ce.get('ce_a', 0)
        text = '%s: engine=0x%016x spec=0x%016x occ/bitboard=0x%016x a=%s b=%s' % (r.q.name, ce.get('ce_got', 0), ce.get('ce_want', 0), ce.get('ce_occ', 0), ce.get('ce_a'), ce.get('ce_b'))
        # native replay: the real function/table of a g++ build on the same inputs
        exe = ctx.native_bin('c11_replay', [os.path.join(VERIF, 'native', 'c11_replay.cpp')], ['move_bitboards', 'bithacks', 'types'])
        out = ctx.sh([exe, r.q.name, str(ce.get('ce_occ', 0)), str(ce.get('ce_a', 0)), str(ce.get('ce_b', 0))], ok=(0, 1, 3))
        mm = re.search(r'native=(\d+)', out)
        if not mm: return {'confirmed': None, 'text': text + ' (no native replay for this harness)'}
        native = int(mm.group(1))
        path = report.save_replay(ctx, r.q.name, {'harness': r.q.name, 'inputs': ce, 'native_value': native, 'spec_value': ce.get('ce_want')})
        return {'confirmed': native == ce.get('ce_got') and native != ce.get('ce_want'), 'key': r.q.name, 'text': text, 'path': path}
    return report.finish(ctx, res, wit, replay=replay,
        assumptions=['tables are those computed by the real init() functions of /repo, executed natively (g++ -O1) on every run',
                     'clang-14 -O1 IR of slider_attack<>/shift<>/pawn_attacks is the semantics checked (integer code: identical to the release build)',
                     'the geometric reference in harness/c11_spec.h is trusted'],
        bounds={'squares': 'all 64 (one query each) x {bishop, rook, queen}', 'occupancy': 'all 2^64 values (symbolic)', 'table indices': 'symbolic',
                'loops': 'only reference-model loops; unwound to their fixed trip counts, unwinding assertions on'},
        technique='bounded symbolic model checking (clang IR -> C -> CBMC/kissat)')
