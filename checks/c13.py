"""C13 - static evaluation is colour-symmetric (endgame evaluators; general evaluator terms in c13 'general' queries)."""
import re, os
from pipeline import Query, Broken, VERIF
import layout, material, report
from checks import make_common as mc

TUS = ['endgame', 'bitbase', 'position', 'types', 'bithacks', 'movegen']
SLIDERS = ['_ZN6engine13slider_attackILNS_9PieceKindE3EEEmNS_6SquareEm', '_ZN6engine13slider_attackILNS_9PieceKindE4EEEmNS_6SquareEm', '_ZN6engine13slider_attackILNS_9PieceKindE5EEEmNS_6SquareEm']
TYPES = ['KPK', 'KPsK', 'KNBK', 'KXK', 'KQKR', 'KRNKR', 'KRBKR', 'KBPsK', 'KQKP', 'KRKP', 'KNNK', 'KNNKP', 'KBPsKB', 'KRKB', 'KRKN', 'KQKRPs', 'KmmKm']
MATS = {'KPK': ['KPk'], 'KPsK': ['KPPk', 'KPPPk'], 'KNBK': ['KNBk'], 'KXK': ['KQk', 'KRk', 'KBBk', 'KQRk'], 'KQKR': ['KQkr'], 'KRNKR': ['KRNkr'], 'KRBKR': ['KRBkr'],
        'KBPsK': ['KBPk', 'KBPPk'], 'KQKP': ['KQkp'], 'KRKP': ['KRkp'], 'KNNK': ['KNNk'], 'KNNKP': ['KNNkp'], 'KBPsKB': ['KBPkb', 'KBPPkb'], 'KRKB': ['KRkb'], 'KRKN': ['KRkn'],
        'KQKRPs': ['KQkrp', 'KQkrpp'], 'KmmKm': ['KBBkn', 'KBNkb', 'KNNkb', 'KBBkb']}
QUICK_SKIP = {'KPPPk', 'KQRk'}
EGB = ('EG_', 'endgame::EndgameBase', '%"class.engine::endgame::EndgameBase"', ['strongSide', 'weakSide', 'strongKing', 'weakKing'])

def fn(kind, k): return '_ZNK6engine7endgame12_GLOBAL__N_17EndgameILNS0_11EndgameTypeE%dEE%sERKNS_8PositionE' % (k, kind)

def check(ctx):
    m = ctx.module(TUS)
    tables = ctx.dump_tables()
    entries = ['_ZNK6engine7endgame11EndgameBase5scoreERKNS_8PositionE']
    for k in range(len(TYPES)): entries += [fn('7applies', k), fn('15strongSideScore', k)]
    c, h, info = ctx.translate(m, entries, stubs=SLIDERS, overrides=tables)
    layout.field_header(ctx, m, [layout.POSITION_FIELDS, layout.HASHKEY_FIELDS, EGB], ['position.h', 'endgame.h'])
    H = ['#include "c13.c"']; names = []
    for k, t in enumerate(TYPES):
        for ms in MATS[t]:
            if ctx.tier == 'quick' and ms in QUICK_SKIP: continue
            mat = material.parse(ms)
            f = 'h_eg_%s_%s' % (t, ms)
            H.append('void %s(void) { static const uint32_t mat[] = %s; eg_case(mat, %d, (applies_fn)%s, (score_fn)%s); }' % (f, material.cinit(mat), len(mat), fn('7applies', k), fn('15strongSideScore', k)))
            names.append((f, {'endgame_class': t, 'material': ms, 'squares/side': 'symbolic; compared with the colour-mirrored position'}, mat))
    hp = ctx.path('h_c13.c'); open(hp, 'w').write('\n'.join(H) + '\n')
    D = ['S_USE_BITBOARD_ORACLE']
    gb = ctx.gotocc('c13', [c, hp], D); gbw = ctx.gotocc('c13w', [c, hp], D + ['WITNESS'])
    qs, ws = [], []
    to = 600 if ctx.tier == 'quick' else 2700
    for f, smp, mat in names:
        if ctx.only and not re.search(ctx.only, f): continue
        us = mc.unwindset(len(mat)); us.update({'pos_mirror.0': 65, 'pos_mirror.1': 9})
        qs.append(Query(f, gb, f, us, timeout=to, sample=smp, meta={'mat': mat}, max_unwind={'*': 66}))
        ws.append(Query('w_' + f, gbw, f, us, timeout=to, sample=smp, meta={'of': f}, expect='witness', max_unwind={'*': 66}))
    res = ctx.run_queries(qs + ws, label='c13')
    wit = [r for r in res if r.q.expect == 'witness']; res = [r for r in res if r.q.expect != 'witness']
    def replay(ctx, r):
        import fen as F
        ce = r.ce(); fen = F.from_ce(ce)
        exe = ctx.native_bin('eval_replay', [os.path.join(VERIF, 'native', 'eval_replay.cpp')], mc.NATIVE_TUS + ['score'])
        out = ctx.sh([exe, 'sym', fen], ok=(0, 1, 3))
        path = report.save_replay(ctx, r.q.name, {'harness': r.q.name, 'fen': fen, 'native_output': out.strip().split('\n')})
        return {'confirmed': 'REPRODUCED' in out and 'NOT-REPRODUCED' not in out, 'key': r.q.name.split('_')[2], 'path': path,
                'text': '%s: position "%s" | native: %s' % (r.q.name, fen, out.strip().replace('\n', ' / ')[:300])}
    return report.finish(ctx, res, wit, replay=replay,
        assumptions=['slider_attack<> replaced by its contract (C11)', 'BITBASE and leaper tables dumped from the real init()',
                     'mirror symmetry is checked per endgame class on the materials listed; the dispatch loop endgame::score (std::vector<unique_ptr>) is not encoded: '
                     'its order is irrelevant for symmetry as long as never both colour instances of a class apply (asserted) and applies() is mirror-symmetric (asserted)',
                     'general (non-endgame) evaluator terms: see bounds'],
        bounds={'endgame classes': {t: MATS[t] for t in TYPES}, 'squares/side to move': 'symbolic', 'castling/en passant': 'none (endgame evaluators do not read them)'})
