"""C12 - KPK knowledge equals the game-theoretic truth: solver-checked win/draw certificate over all legal KPK positions."""
import re, os
from pipeline import Query, Broken, VERIF
import layout, report
from checks.c13 import EGB

TUS = ['endgame', 'bitbase', 'position', 'types', 'bithacks']
ENTRIES = ['_ZN6engine7bitbase9normalizeENS_5ColorERS1_RNS_6SquareES4_S4_', '_ZN6engine7bitbase5checkENS_5ColorENS_6SquareES2_S2_',
           '_ZNK6engine7endgame12_GLOBAL__N_17EndgameILNS0_11EndgameTypeE0EE15strongSideScoreERKNS_8PositionE']

def check(ctx):
    m = ctx.module(TUS)
    tables = ctx.dump_tables()
    c, h, info = ctx.translate(m, ENTRIES, overrides=tables)
    layout.field_header(ctx, m, [layout.POSITION_FIELDS, layout.HASHKEY_FIELDS, EGB], ['position.h', 'endgame.h'])
    # independent retrograde witness (untrusted)
    ctx.sh(['g++', '-O2', '-I', os.path.join(VERIF, 'rt'), os.path.join(VERIF, 'native', 'kpk_solve.cpp'), '-o', ctx.path('kpk_solve')])
    out = ctx.sh([ctx.path('kpk_solve'), ctx.path('kpk_d.init')])
    ctx.notes.append('independent retrograde witness: ' + out.strip())
    H = ['#include "c12.c"', 'const uint8_t KPK_D[2][48][4096] = ', '#include "kpk_d.init"', ';']; names = []
    for stm in (0, 1):
        for wp in range(8, 56):
            if ctx.tier == 'quick' and (wp & 7) > 3 and not ((wp & 7) in (4, 7) and (wp >> 3) in (1, 6)): continue
            f = 'h_kpk_%s_%s%d' % ('wb'[stm], 'abcdefgh'[wp & 7], (wp >> 3) + 1)
            H.append('void %s(void) { kpk_case(%d, %d); }' % (f, stm, wp))
            names.append((f, {'pawn': 'abcdefgh'[wp & 7] + str((wp >> 3) + 1), 'side_to_move': 'wb'[stm], 'kings': 'symbolic (all legal pairs)'}))
    hp = ctx.path('h_c12.c'); open(hp, 'w').write('\n'.join(H) + '\n')
    gb = ctx.gotocc('c12', [c, hp]); gbw = ctx.gotocc('c12w', [c, hp], ['WITNESS'])
    us = {'kpk_case.0': 9, 'kp_promo_wins.0': 3, 'kp_promo_wins.1': 9, 'kp_line_attack.0': 8}
    qs, ws = [], []
    for f, smp in names:
        if ctx.only and not re.search(ctx.only, f): continue
        qs.append(Query(f, gb, f, us, timeout=600, sample=smp, max_unwind={'*': 12}))
        ws.append(Query('w_' + f, gbw, f, us, timeout=600, sample=smp, meta={'of': f}, expect='witness', max_unwind={'*': 12}))
    res = ctx.run_queries(qs + ws, par=16, label='c12')
    wit = [r for r in res if r.q.expect == 'witness']; res = [r for r in res if r.q.expect != 'witness']
    def replay(ctx, r):
        ce = r.ce()
        exe = ctx.native_bin('kpk_replay', [os.path.join(VERIF, 'native', 'kpk_replay.cpp')], ['endgame', 'bitbase', 'position', 'types', 'bithacks', 'movegen', 'move_bitboards', 'zobrist_hash'])
        out = ctx.sh([exe] + [str(ce.get(k, 0)) for k in ('ce_stm', 'ce_wk', 'ce_wp', 'ce_bk')], ok=(0, 1))
        path = report.save_replay(ctx, r.q.name, {'harness': r.q.name, 'position': {k: ce.get(k) for k in ('ce_stm', 'ce_wk', 'ce_wp', 'ce_bk')}, 'native_output': out.strip().split('\n')})
        mm = re.search(r'MISMATCH (\S+)', out)
        return {'confirmed': 'REPRODUCED' in out and 'NOT-REPRODUCED' not in out, 'key': mm.group(1) if mm else 'kpk', 'path': path,
                'text': '%s: %s | native: %s' % (r.q.name, '; '.join(d for _, d in r.failed[:2]), out.strip().replace('\n', ' / ')[:400])}
    return report.finish(ctx, res, wit, replay=replay,
        assumptions=['BITBASE is the table built by the real bitbase::init() of /repo (executed natively on every run)',
                     'axiom: with the pawn on the 7th, promoting to a queen or rook that cannot be captured at once and does not stalemate wins (KQK/KRK are won)',
                     'the depth witness D comes from an independent retrograde pass (native/kpk_solve.cpp); it is only a witness: conditions (1)-(4) are checked by the solver for every position',
                     'mirror symmetry of chess: Black owning the pawn is the colour-mirrored position (the evaluator for Black is checked against the same set, condition (5))',
                     'rules of KPK written in rt/kpk_rules.h (king moves, pawn single/double push, capture of the pawn, check, stalemate)'],
        bounds={'positions': ('thorough tier: ALL legal KPK positions: 48 pawn squares x 2 sides to move (one query each) x all king placements (symbolic); exhaustive, no bound. ' 'quick tier: pawn files a-d (all ranks) plus e2,e7,h2,h7; the other e-h squares reach the same table entries through the horizontal flip of bitbase::normalize') + ' [this run: %d pawn-square/side queries]' % len(names),
                'loops': 'fixed trip counts (8 king directions, 7 ray steps)'})
