"""C05 - every go is answered by exactly one legal bestmove (Level A: control code; Level B: one search node, see c05 'node' queries)."""
import re, os
import report
from checks import search_common as sc

HEAVY = 'k7/8/1r1q1r1q/b1q1n1q1/1Q1N1Q1B/Q1R1Q1R1/8/7K w - - 0 1'

def check(ctx):
    m, res, wit, dmax = sc.run(ctx, 'C05', ['C05'])
    def replay(ctx, r):
        ce = r.ce('C05')
        exe = sc.native_engine(ctx)
        bad = []; outs = []
        # a budget that expires / a stop that arrives before depth 1 completes, as in the counterexample class
        for script in (['position fen ' + HEAVY, 'go movetime 1'], ['position fen ' + HEAVY, 'go infinite', 'stop'], ['position startpos', 'go infinite', 'stop']):
            out = sc.uci_session(ctx, exe, script, wait=2.5)
            bm = re.findall(r'^bestmove (\S+)', out, re.M); outs.append({'script': script, 'bestmoves': bm})
            if len(bm) != 1 or bm[0] == 'a1a1': bad.append('%s -> %s' % (' / '.join(script), bm))
        path = report.save_replay(ctx, r.q.name, {'harness': 'h_go', 'schedule': ce, 'uci_replays': outs})
        return {'confirmed': bool(bad), 'key': 'bestmove-before-depth1', 'path': path,
                'text': 'go answered with uci_calls=%s move=%s (root moves %s), stop point %s | native UCI: %s' % (ce.get('ce_uci_calls'), ce.get('ce_uci_move'), ce.get('ce_rm'), ce.get('ce_stop_point'), '; '.join(bad) or 'not reproduced')}
    return report.finish(ctx, res, wit, replay=replay, assumptions=sc.ASSUME + ['legality of the PV beyond its first move and under hash collisions is the Level B (one-node) part; not yet covered by this check'],
        bounds={'iterations': 'at most %d iterations complete (afterwards the environment interrupts the search); requested depth 0..60' % dmax, 'root moves': '1..4', 'limits': 'all combinations of depth/movetime/clock/nodes/infinite/searchmoves (symbolic)', 'stop delivery': 'every point of the Level A schedule'})
