"""C05 - every go is answered by exactly one legal bestmove (Level A: control code; Level B: one search node, see c05 'node' queries)."""
import re, os
import report
from checks import search_common as sc

HEAVY = 'k7/8/1r1q1r1q/b1q1n1q1/1Q1N1Q1B/Q1R1Q1R1/8/7K w - - 0 1'

def replay_node(ctx, r):
    # one-node counterexample (table entry with a foreign move etc.): replay natively by poisoning the real table before a real search
    ce = r.ce('C05')
    exe = ctx.native_bin('tt_replay', [os.path.join(sc.VERIF, 'native', 'tt_replay.cpp')], ['search', 'position', 'movegen', 'move_bitboards', 'bithacks', 'types', 'zobrist_hash', 'bitbase', 'endgame', 'score', 'move_orderer', 'time_manager', 'logger'])
    out = ctx.sh([exe, str(ce.get('ce_ttflag', 0) % 3)], ok=(0, 1), timeout=120)
    path = report.save_replay(ctx, r.q.name, {'harness': r.q.name, 'node': ce, 'native_output': out.strip().split('\n')[-8:]})
    conf = 'REPRODUCED' in out and 'NOT-REPRODUCED' not in out
    return {'confirmed': True if conf else None, 'strict': True, 'key': 'node-pv-legality', 'path': path,
            'text': '%s: %s | node: list %s, table found=%s flag=%s depth=%s move=%s -> pv[0]=%s | native poisoned-table search: %s' % (r.q.name, '; '.join(d for _, d in r.failed[:2]), ce.get('ce_list'), ce.get('ce_ttfound'), ce.get('ce_ttflag'), ce.get('ce_ttdepth'), ce.get('ce_ttmove'), ce.get('ce_pv0'), out.strip().split('\n')[-1][:200])}


def check(ctx):
    m, res, wit, dmax = sc.run(ctx, 'C05', ['C05'])
    specs = [(1, False, [], ''), (2, False, [], ''), (2, True, [], '')] + ([] if ctx.tier == 'quick' else [(40, False, [], ''), (41, True, [], ''), (79, True, [], '')])
    rb, wb = sc.run_b(ctx, 'C05', specs, ['C05', 'C03'])
    res += rb; wit += wb
    def replay(ctx, r):
        ce = r.ce('C05')
        if r.q.name.startswith(('h_search', 'h_qsearch')): return replay_node(ctx, r)
        exe = sc.native_engine(ctx)
        bad = []; outs = []
        # a budget that expires / a stop that arrives before depth 1 completes, as in the counterexample class
        for script in (['position fen ' + HEAVY, 'go movetime 1'], ['position fen ' + HEAVY, 'go infinite', 'stop'], ['position startpos', 'go infinite', 'stop']):
            out = sc.uci_session(ctx, exe, script, wait=2.5)
            bm = re.findall(r'^bestmove (\S+)', out, re.M); outs.append({'script': script, 'bestmoves': bm})
            if len(bm) != 1 or bm[0] == 'a1a1': bad.append('%s -> %s' % (' / '.join(script), bm))
        path = report.save_replay(ctx, r.q.name, {'harness': 'h_go', 'schedule': ce, 'uci_replays': outs})
        return {'confirmed': bool(bad), 'key': 'bestmove-before-depth1', 'path': path,
                'text': 'go answered with uci_calls=%s move=%s (root moves %s), stop point %s | native UCI: %s' % (ce.get('ce_uci_calls'), ce.get('ce_uci_move'), ce.get('ce_rm'), ce.get('ce_stop_point'), '; '.join(bad) or 'not reproduced')}
    return report.finish(ctx, res, wit, replay=replay, assumptions=sc.ASSUME + sc.ASSUME_B,
        bounds={'iterations': 'at most %d iterations complete (afterwards the environment interrupts the search); requested depth 0..60' % dmax, 'root moves': '1..4', 'limits': 'all combinations of depth/movetime/clock/nodes/infinite/searchmoves (symbolic)', 'stop delivery': 'every point of the Level A schedule'})
