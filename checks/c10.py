"""C10 - no well-formed session corrupts memory: boundary harnesses for the fixed-size buffers; CBMC's array-bounds,
pointer, shift and overflow checks are on for every translated function here and in all other checks."""
import re, os
from pipeline import Query, Broken, VERIF
import layout, material, report
from checks import make_common as mc
from checks import search_common as sc

def check(ctx):
    quick = ctx.tier == 'quick'
    # ---- position-level boundaries
    m = ctx.module(mc.TUS)
    c, h, info = ctx.translate(m, ['_ZN6engine8Position7do_moveEj', '_ZN6engine8Position9undo_moveEjj', '_ZN6engine8Position9add_pieceENS_5PieceENS_6SquareE', '_ZN6engine8Position12remove_pieceENS_6SquareE'],
                               globals_=mc.GLOBALS, env_tables={'_ZN6engine10PIECE_HASHE': 'env_piece_hash'}, out='engp')
    layout.field_header(ctx, m, [layout.POSITION_FIELDS, layout.HASHKEY_FIELDS], ['position.h'])
    open(ctx.path('eng.h'), 'w').write(open(h).read())
    H = ['#include "c10.c"']; names = []
    ms = [material.parse(x) for x in (('KPkp', 'KRk') if quick else ('KPkp', 'KRk', 'KRkr', 'KPkr', 'KQkp'))]
    for mat in ms:
        for hc in ((1, 799, 800) if quick else (1, 2, 399, 400, 401, 798, 799, 800)):
            side = hc % 2
            fn = 'h_hist_%s_%s_%d' % (material.name(mat), 'wb'[side], hc)
            H.append('void %s(void) { static const uint32_t mat[] = %s; hist_case(mat, %d, %d, %d); }' % (fn, material.cinit(mat), len(mat), side, hc))
            names.append((fn, {'buffer': 'Position::_history[800]', 'history counter': hc, 'material': material.name(mat), 'move': 'any legal move'}, mat))
    names.append(('h_add_piece', {'buffer': 'Position::_piece_position[.][10]', 'count before': '0..9', 'piece/square': 'symbolic'}, [6, 12]))
    hp = ctx.path('h_c10.c'); open(hp, 'w').write('\n'.join(H) + '\n')
    D = ['S_USE_BITBOARD_ORACLE']
    gb = ctx.gotocc('c10', [c, hp], D); gbw = ctx.gotocc('c10w', [c, hp], D + ['WITNESS'])
    qs, ws = [], []
    for fn, smp, mat in names:
        if ctx.only and not re.search(ctx.only, fn): continue
        us = mc.unwindset(len(mat)); us.update({'h_add_piece.0': 11, '_ZN6engine8Position12remove_pieceENS_6SquareE.0': 11, '_ZN6engine8Position10move_pieceENS_6SquareES1_.0': 11})
        qs.append(Query(fn, gb, fn, us, timeout=900, sample=smp, max_unwind={'*': 70}))
        ws.append(Query('w_' + fn, gbw, fn, us, timeout=900, sample=smp, meta={'of': fn}, expect='witness', max_unwind={'*': 70}))
    # ---- search-level boundary: per-iteration arrays of iter_search with depth limits above MAX_DEPTH
    # (a fresh context slot for the second module: the Search types are shrunk in place)
    itmax = 44
    if not quick: m2, gsa, gsaw = sc.build(ctx, ['DMAX=60', 'ITER_MAX=%d' % itmax, 'RESEARCH_MAX=0', 'LL2C_FP_ABSTRACT'])
    us2 = sc.unwindset(itmax + 1, 0)
    if quick: ctx.notes.append('quick tier: the 41..60-iteration boundary query of iter_search (previous_moves[]) is only run in the thorough tier')
    smp = {'buffer': 'previous_moves[MAX_DEPTH+1] and the search stack slots used by iter_search', 'requested depth': '41..60', 'iterations': 'up to %d complete' % itmax}
    if (not quick) and (not ctx.only or re.search(ctx.only, 'h_go_deep')):
        qs.append(Query('h_go_deep', gsa, 'h_go_deep', us2, timeout=1500 if quick else 3000, sample=smp, extra=sc.EXTRA, max_unwind={'*': 60}))
        ws.append(Query('w_h_go_deep', gsaw, 'h_go_deep', us2, timeout=1500 if quick else 3000, meta={'of': 'h_go_deep'}, expect='witness', extra=sc.EXTRA, max_unwind={'*': 60}))
    # ---- pin table of the move generator
    PW = '_ZN6engine13generate_pinsILNS_5ColorE0EEEPjRKNS_8PositionES2_Pm'; PB = PW.replace('ColorE0', 'ColorE1'); PINS = '_ZN6engine4PINSE'
    if not ctx.only or re.search(ctx.only, 'h_pins'):
        mp = ctx.module(['movegen', 'position', 'types', 'bithacks', 'move_bitboards'], tag='pins')
        cp, hpp, _ = ctx.translate(mp, [PW, PB], overrides=ctx.dump_tables(), globals_=[PINS], out='engpins')
        hdr = open(hpp).read()
        if PINS not in hdr: raise Broken('global PINS not found in movegen (pin table renamed?)')
        hp2 = ctx.path('h_c10_pins.c')
        open(hp2, 'w').write('#define ENG_H "engpins.h"\n#define GEN_PINS_W %s\n#define GEN_PINS_B %s\n#define PINS_G %s\n#include "c10_pins.c"\n' % (PW, PB, PINS))
        gp = ctx.gotocc('c10p', [cp, hp2]); gpw = ctx.gotocc('c10pw', [cp, hp2], ['WITNESS'])
        for fn in ('h_pins_w', 'h_pins_b'):
            smp = {'buffer': 'PINS[MAX_PINS] (movegen.cpp)', 'position': 'arbitrary bitboards, board array and king square', 'entry': 'generate_pins<%s>' % ('WHITE' if fn.endswith('w') else 'BLACK')}
            us = {'pins_case.0': 3, 'pins_case.1': 8, 'pins_case.2': 65}
            qs.append(Query(fn, gp, fn, us, timeout=900, sample=smp, max_unwind={'*': 70}))
            ws.append(Query('w_' + fn, gpw, fn, us, timeout=900, sample=smp, meta={'of': fn}, expect='witness', max_unwind={'*': 70}))
    res = ctx.run_queries(qs + ws, par=4, label='c10')
    rb, wb = sc.run_b(ctx, 'C10', [(40, False, [], ''), (41, False, [], ''), (41, True, [], ''), (79, True, [], '')], ['C10'])
    res += rb + wb
    wit = [r for r in res if r.q.expect == 'witness']; res = [r for r in res if r.q.expect != 'witness']
    for r in res:       # assertions of other properties in the shared Level A harness are not C10's business
        if r.status == 'fail':
            r.failed = [f for f in r.failed if not re.match(r'C(0[0-9]|1[1-9]|20)', f[1])]
            if not r.failed: r.status = 'pass'
    def replay(ctx, r):
        ce = r.ce()
        if r.q.name == 'h_go_deep':
            exe = sc.native_engine(ctx, sanitize=True)
            out = sc.uci_session(ctx, exe, ['position fen 8/8/8/4k3/8/4K3/8/8 w - - 0 1', 'go depth %d' % max(41, ce.get('ce_depth', 60))], wait=8.0)
            bad = 'AddressSanitizer' in out or 'runtime error' in out
            path = report.save_replay(ctx, r.q.name, {'harness': r.q.name, 'limits': ce, 'sanitizer_output': [l for l in out.split('\n') if 'Sanitizer' in l or 'runtime error' in l or 'overflow' in l][:10]})
            return {'confirmed': bad, 'key': 'iter-search-depth', 'path': path, 'text': '%s | ASan/UBSan build, go depth %d in a bare-kings position: %s' % ('; '.join(d for _, d in r.failed[:2]), max(41, ce.get('ce_depth', 60)), 'sanitizer report' if bad else 'clean')}
        if r.q.name.startswith('h_hist'):
            exe = sc.native_engine(ctx, sanitize=True)
            seq = ['g1f3', 'g8f6', 'f3g1', 'f6g8'] * 205
            out = sc.uci_session(ctx, exe, ['position startpos moves ' + ' '.join(seq), 'go depth 1'], wait=6.0)
            bad = 'AddressSanitizer' in out or 'runtime error' in out
            path = report.save_replay(ctx, r.q.name, {'harness': r.q.name, 'history_counter': ce.get('ce_aux'), 'sanitizer_output': [l for l in out.split('\n') if 'Sanitizer' in l or 'runtime error' in l][:10]})
            return {'confirmed': bad, 'key': 'history-overflow', 'path': path, 'text': '%s with history counter %s | ASan build, 820-ply game: %s' % ('; '.join(d for _, d in r.failed[:2]), ce.get('ce_aux'), 'sanitizer report' if bad else 'clean')}
        if r.q.name.startswith('h_pins'):
            import subprocess
            import glob
            eng = [f for f in sorted(glob.glob(os.path.join(os.environ.get('VERIF_REPO', '/repo'), 'engine', '*.cpp'))) if not f.endswith('/main.cpp')]
            exe = ctx.native_bin('pins_replay', [os.path.join(VERIF, 'native', 'pins_replay.cpp'), '-fsanitize=address', '-fno-omit-frame-pointer', '-g'] + eng, [])
            out = ctx.sh([exe], ok=tuple(range(0, 256)) + (-6, -11))
            bad = 'AddressSanitizer' in out
            path = report.save_replay(ctx, r.q.name, {'harness': r.q.name, 'model': ce, 'sanitizer_output': [l for l in out.split('\n') if 'Sanitizer' in l or 'overflow' in l or 'PINS' in l][:8]})
            return {'confirmed': True if bad else None, 'strict': True, 'key': 'pin-table-overflow', 'path': path,
                    'text': '%s: %s pins written for an arbitrary occupancy (table holds fewer) | ASan build, positions with 2..8 absolute pins: %s' % (r.q.name, ce.get('ce_npins'), 'global-buffer-overflow reported' if bad else 'no report')}
        path = report.save_replay(ctx, r.q.name, {'harness': r.q.name, 'inputs': ce})
        return {'confirmed': None, 'strict': True, 'key': r.q.name, 'path': path, 'text': '%s: %s' % (r.q.name, '; '.join(d for _, d in r.failed[:2]))}
    return report.finish(ctx, res, wit, replay=replay,
        assumptions=mc.ASSUME[:2] + sc.ASSUME[:5] + ['NOT covered: the I/O layer (uci.cpp: searchmoves[512] parsing, logger), std::vector/std::map internals, heap exhaustion',
                     'search()/quiescence_search(): one node at stack indices 40, 41 (search) and 41, 79 (quiescence) with every depth consistent with index + depth <= 80: children are only called with an existing stack slot, PV copies stay inside the arrays',
                     'uninitialised values: clang materialises them as undef in the IR; the translator turns undef into 0, so uses of uninitialised values are not detected by these queries',
                     'array-bounds/pointer/shift/overflow checks of CBMC are also active in every other check of this suite (C01-C04, C07, C11-C16, C18-C20) on the functions listed there'],
        bounds={'history counter': 'boundary values 1, 799, 800 (thorough: 1,2,399,400,401,798,799,800) with symbolic position and move', 'piece count': '0..9 before add_piece', 'depth limit': '41..60 with up to %d completed iterations' % itmax, 'material (history harness)': [material.name(x) for x in ms]})
