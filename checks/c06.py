"""C06 - stop is never lost; the stop flag is free of data races."""
import re, os
import report
from checks import search_common as sc

def check(ctx):
    m, res, wit, dmax = sc.run(ctx, 'C06', ['C06'])
    rb, wb = sc.run_b(ctx, 'C06', [(2, False, [], ''), (2, True, [], '')] + ([] if ctx.tier == 'quick' else [(41, True, [], ''), (1, False, [], '')]), ['C06'])
    res += rb; wit += wb
    def replay(ctx, r):
        ce = r.ce('C06')
        exe = sc.native_engine(ctx)
        if r.q.name.startswith(('h_search', 'h_qsearch')):
            # a node that does not poll the flag: stop during a large capture tree
            out = sc.uci_session(ctx, exe, ['position fen q2k2q1/2nqn2b/3P1n1b/2rnr2Q/1NQ1QN1Q/3Q3B/2RQR2B/Q2K2Q1 w - - 0 1', 'go infinite', 0.3, 'stop'], wait=3.0)
            bm = re.findall(r'^bestmove (\S+)', out, re.M)
            path = report.save_replay(ctx, r.q.name, {'harness': r.q.name, 'node': ce, 'native_bestmoves_within_3s_of_stop': bm})
            return {'confirmed': True if len(bm) != 1 else None, 'strict': True, 'key': 'node-ignores-stop', 'path': path, 'text': '%s: %s | native: stop during a capture-heavy search answered within 3 s: %s' % (r.q.name, '; '.join(d for _, d in r.failed[:2]), bm)}
        sp = ce.get('ce_stop_point', 0)
        if 160 <= sp < 200:
            # stop lands while the info line of an iteration is printed: this interleaving can be pinned natively through cout's stream buffer
            ALL = ['bitbase', 'bithacks', 'endgame', 'logger', 'move_bitboards', 'move_orderer', 'movegen', 'polyglot', 'position', 'score', 'search', 'time_manager', 'types', 'uci', 'ucioption', 'zobrist_hash']
            rexe = ctx.native_bin('stop_replay', [os.path.join(sc.VERIF, 'native', 'stop_replay.cpp')], ALL)
            out = ctx.sh([rexe, str(sp - 160 + 1)], ok=(0, 1), timeout=120)
            path = report.save_replay(ctx, r.q.name, {'harness': 'h_go', 'schedule': ce, 'native(stop executed inside the flush of the info line)': out.strip().split('\n')})
            return {'confirmed': 'REPRODUCED' in out and 'NOT-REPRODUCED' not in out, 'key': 'lost-stop-between-iterations', 'path': path,
                    'text': 'stop delivered while info line %d is printed, %s root searches completed afterwards | native: %s' % (sp - 160 + 1, ce.get('ce_completed_after_stop'), out.strip().replace('\n', ' / ')[:300])}
        lost = 0; runs = []
        for i in range(5):
            out = sc.uci_session(ctx, exe, ['position startpos', 'go infinite', 'stop'], wait=2.0)
            bm = re.findall(r'^bestmove (\S+)', out, re.M); runs.append(bm)
            if len(bm) != 1: lost += 1
        path = report.save_replay(ctx, r.q.name, {'harness': 'h_go', 'schedule': ce, 'uci_runs(position startpos/go infinite/stop)': runs})
        # a timing run cannot force the schedule the solver found: not reproducing it proves nothing, so the schedule stands (strict)
        return {'confirmed': True if lost > 0 else None, 'strict': True, 'key': 'lost-stop', 'path': path,
                'text': 'stop delivered at schedule point %s, %s root searches completed afterwards | native: %d of 5 back-to-back go infinite/stop sessions produced no bestmove within 2 s' % (ce.get('ce_stop_point'), ce.get('ce_completed_after_stop'), lost)}
    rc_extra = []
    rc = report.finish(ctx, res, wit, replay=replay,
        assumptions=sc.ASSUME + sc.ASSUME_B[:1] + ['Level B: a stop flag that is already set when search()/quiescence_search() is entered makes the node return before any move is made or searched (so the latency of a stop is one node visit)', 'interleavings are modelled by delivering the complete Search::stop() call at one symbolic point between the visible operations of the search thread '
                                 '(stop() is a single store, so finer interleavings add nothing); CBMC threads are not used',
                                 'data-race freedom of the flag is decided on the IR: the flag member must be std::atomic (all accesses are then atomic operations); with a plain bool, written by stop() and read by the search thread, the check reports a race',
                                 'NOT covered: isready/readyok while searching and the lifetime of the detached thread / shared_ptr in uci.cpp (std::thread, iostream loop)',
                                 '"prompt" is "no further root search completes and go() returns within the unwinding bound"; wall-clock time is not modelled'],
        bounds={'iterations': 'at most %d iterations complete (afterwards the environment interrupts the search); requested depth 0..60' % dmax, 'stop delivery points': 'before go() resumes after init_search, first clock read, before each of the first root search calls, during a root search, never'},
        extra={'stop_flag_is_atomic': bool(getattr(ctx, 'stop_flag_atomic', False))})
    if not getattr(ctx, 'stop_flag_atomic', False) and rc == 0:
        p = report.save_replay(ctx, 'race', {'finding': 'Search::stop_search is a plain bool written by Search::stop() (UCI thread) and read/written by go()/search() (search thread) without synchronisation'})
        print('VIOLATION property=C06 replay=%s' % p, flush=True)
        print('  data race: the stop flag is not atomic', flush=True)
        return 1
    return rc
