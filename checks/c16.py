"""C16 - move encoding round-trips (packed Move and MoveInfo), for all field values.  The move-text part
(Position::uci / parse_uci) is in c16 'text' queries when the std::string model applies; FEN text is not encodable."""
import re, os
from pipeline import Query, Broken, VERIF
import report

TUS = ['types', 'movegen', 'position']
ENTRIES = ['_ZN6engine11create_moveENS_6SquareES0_', '_ZN6engine16create_promotionENS_6SquareES0_NS_9PieceKindE', '_ZN6engine15create_castlingENS_8CastlingE',
           '_ZN6engine4fromEj', '_ZN6engine2toEj', '_ZN6engine9promotionEj', '_ZN6engine8castlingEj',
           '_ZN6engine15create_moveinfoENS_9PieceKindENS_8CastlingENS_6SquareEbh', '_ZN6engine14captured_pieceEj', '_ZN6engine13last_castlingEj',
           '_ZN6engine21last_enpassant_squareEj', '_ZN6engine9enpassantEj', '_ZN6engine17half_move_counterEj']
HARN = ['h_move_roundtrip', 'h_promotion_roundtrip', 'h_castling_roundtrip', 'h_move_injective', 'h_moveinfo_roundtrip']

def check(ctx):
    m = ctx.module(TUS)
    c, h, info = ctx.translate(m, ENTRIES)
    hp = os.path.join(VERIF, 'harness', 'c16.c')
    gb = ctx.gotocc('c16', [c, hp]); gbw = ctx.gotocc('c16w', [c, hp], ['WITNESS'])
    names = [n for n in HARN if not ctx.only or re.search(ctx.only, n)]
    qs = [Query(n, gb, n, {}, timeout=300, sample={'harness': n, 'fields': 'all values (symbolic)'}) for n in names]
    ws = [Query('w_' + n, gbw, n, {}, timeout=300, meta={'of': n}, expect='witness') for n in names]
    res = ctx.run_queries(qs + ws, label='c16')
    wit = [r for r in res if r.q.expect == 'witness']; res = [r for r in res if r.q.expect != 'witness']
    def replay(ctx, r):
        ce = r.ce()
        exe = ctx.native_bin('c16_replay', [os.path.join(VERIF, 'native', 'c16_replay.cpp')], ['types'])
        out = ctx.sh([exe, r.q.name] + [str(ce.get(k, 0)) for k in ('ce_a', 'ce_b', 'ce_c', 'ce_d', 'ce_e')], ok=(0, 1))
        path = report.save_replay(ctx, r.q.name, {'harness': r.q.name, 'inputs': ce, 'native_output': out.strip()})
        return {'confirmed': 'REPRODUCED' in out and 'NOT-REPRODUCED' not in out, 'key': r.q.name, 'path': path, 'text': '%s inputs %s | %s' % (r.q.name, ce, out.strip()[:200])}
    return report.finish(ctx, res, wit, replay=replay,
        assumptions=['FEN text round-trip (Position(std::string), Position::fen()) is istringstream/ostringstream/std::map code and is NOT covered',
                     'move text round-trip (Position::uci/parse_uci) is not covered by this check yet'],
        bounds={'fields': 'all (from, to) in 0..63, promotion in {none, N, B, R, Q}, both castling codes; move-info: captured 0..6, rights 0..15, ep 0..64, flag, clock 0..255', 'loops': 'none'})
