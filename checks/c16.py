"""C16 - move encoding round-trips (packed Move and MoveInfo), for all field values.  The move-text part
(Position::uci / parse_uci) is in c16 'text' queries when the std::string model applies; FEN text is not encodable."""
import re, os
from pipeline import Query, Broken, VERIF
import report, layout, material
from checks.search_common import proto_stub
from checks.make_common import unwindset as mc_unwind

TUS = ['types', 'movegen', 'position']
ENTRIES = ['_ZN6engine11create_moveENS_6SquareES0_', '_ZN6engine16create_promotionENS_6SquareES0_NS_9PieceKindE', '_ZN6engine15create_castlingENS_8CastlingE',
           '_ZN6engine4fromEj', '_ZN6engine2toEj', '_ZN6engine9promotionEj', '_ZN6engine8castlingEj',
           '_ZN6engine15create_moveinfoENS_9PieceKindENS_8CastlingENS_6SquareEbh', '_ZN6engine14captured_pieceEj', '_ZN6engine13last_castlingEj',
           '_ZN6engine21last_enpassant_squareEj', '_ZN6engine9enpassantEj', '_ZN6engine17half_move_counterEj']
HARN = ['h_move_roundtrip', 'h_promotion_roundtrip', 'h_castling_roundtrip', 'h_move_injective', 'h_moveinfo_roundtrip']

FEN_CT = '_ZN6engine8PositionC2ENSt7__cxx1112basic_stringIcSt11char_traitsIcESaIcEEE'; FEN_WR = '_ZNK6engine8Position3fenB5cxx11Ev'
UCI_WR = '_ZNK6engine8Position3uciB5cxx11Ej'; UCI_RD = '_ZN6engine8Position9parse_uciERKNSt7__cxx1112basic_stringIcSt11char_traitsIcESaIcEEE'
STR = r'_ZNSt7__cxx1112basic_stringIcSt11char_traitsIcESaIcEE'
FEN_LIB = {   # library surface of the two functions -> model bodies (parameters are v_0, v_1, ... as in the generated prototypes)
    'os_cstr': (r'^_ZStlsISt11char_traitsIcEERSt13basic_ostreamIcT_ES5_PKc$', 'for (int i = 0; i < 8; i++) { if (v_1[i] == 0) break; put(v_1[i]); } if (v_1[0] && v_1[1] && v_1[2] && v_1[3] && v_1[4] && v_1[5] && v_1[6] && v_1[7] && v_1[8]) overflow = 1; return v_0;'),
    'os_char': (r'^_ZStlsISt11char_traitsIcEERSt13basic_ostreamIcT_ES5_c$', 'put(v_1); return v_0;'),
    'os_uint': (r'^_ZNSolsEj$', 'put((uint8_t)(0xF0 + nnum)); if (nnum < 4) NUMS[nnum] = (int64_t)v_1; nnum++; return v_0;'),
    'os_int': (r'^_ZNSolsEi$', 'put((uint8_t)(0xF0 + nnum)); if (nnum < 4) NUMS[nnum] = (int64_t)(int32_t)v_1; nnum++; return v_0;'),
    'oss_ctor': (r'^_ZNSt7__cxx1119basic_ostringstreamIcSt11char_traitsIcESaIcEEC1Ev$', 'tlen = 0; nnum = 0; overflow = 0; ntok = 0; in_tok = 0;'),
    'oss_dtor': (r'^_ZNSt7__cxx1119basic_ostringstreamIcSt11char_traitsIcESaIcEED1Ev$', ''),
    'oss_str': (r'^_ZNKRSt7__cxx1119basic_ostringstreamIcSt11char_traitsIcESaIcEE3strEv$', 'v_0->f0.f0 = &TEXT[0]; v_0->f1 = tlen < TMAX ? tlen : TMAX;'),
    'str_dtor': ('^' + STR + 'D2Ev$', ''), 'str_ctor': ('^' + STR + 'C2Ev$', 'v_0->f0.f0 = &TEXT[0]; v_0->f1 = 0;'),
    'str_copy': ('^' + STR + r'C2ERKS4_$', 'v_0->f0.f0 = v_1->f0.f0; v_0->f1 = v_1->f1;'),
    'str_cstr': ('^' + STR + r'C2IS3_EEPKcRKS3_$', 'uint64_t n = 0; for (int i = 0; i < 16; i++) { if (v_1[i] == 0) break; n++; } v_0->f0.f0 = v_1; v_0->f1 = n;'),
    'str_begin': ('^' + STR + '5beginEv$', 'return v_0->f0.f0;'), 'str_end': ('^' + STR + '3endEv$', 'return v_0->f0.f0 + v_0->f1;'),
    'str_idx': ('^' + STR + 'ixEm$', 'return v_0->f0.f0 + v_1;'), 'str_cidx': (r'^_ZNKSt7__cxx1112basic_stringIcSt11char_traitsIcESaIcEEixEm$', 'return v_0->f0.f0 + v_1;'),
    'alloc_c': (r'^_ZNSaIcEC2Ev$', ''), 'alloc_d': (r'^_ZNSaIcED2Ev$', ''),
    'str_eq': (r'^_ZSteqIcSt11char_traitsIcESaIcEEbRKNSt7__cxx1112basic_stringIT_T0_T1_EEPKS5_$', 'uint64_t n = 0; for (int i = 0; i < 3; i++) { if (v_1[i] == 0) break; n++; } if (v_0->f1 != n) return 0; for (uint64_t i = 0; i < 3; i++) if (i < n && v_0->f0.f0[i] != v_1[i]) return 0; return 1;'),
    'iss_ctor': (r'^_ZNSt7__cxx1119basic_istringstreamIcSt11char_traitsIcESaIcEEC1ERKNS_12basic_stringIcS2_S3_EESt13_Ios_Openmode$', 'RD = v_1->f0.f0; rtok = 0;'),
    'iss_dtor': (r'^_ZNSt7__cxx1119basic_istringstreamIcSt11char_traitsIcESaIcEED1Ev$', ''),
    'is_str': (r'^_ZStrsIcSt11char_traitsIcESaIcEERSt13basic_istreamIT_T0_ES7_RNSt7__cxx1112basic_stringIS4_S5_T1_EE$', 'uint32_t st, ln; next_token(&st, &ln); v_1->f0.f0 = (uint8_t *)&RD[st]; v_1->f1 = ln; return v_0;'),
    'is_int': (r'^_ZNSirsERi$', 'uint32_t st, ln; next_token(&st, &ln); uint8_t c = ln == 1 ? RD[st] : 0; *v_1 = (c >= 0xF0 && c < 0xF4) ? (uint32_t)NUMS[c - 0xF0] : 0; return v_0;'),
    'map_ctor': (r'^_ZNSt3mapIcN6engine5PieceESt4lessIcESaISt4pairIKcS1_EEEC2ESt16initializer_listIS6_ERKS3_RKS7_$', 'MAP_INIT = v_1; map_n = v_2;'),
    'map_idx': (r'^_ZNSt3mapIcN6engine5PieceESt4lessIcESaISt4pairIKcS1_EEEixERS5_$', 'NO_PIECE_CELL = 0; uint32_t *r = &NO_PIECE_CELL; for (uint64_t i = 0; i < 12; i++) if (i < map_n && MAP_INIT[i].f0 == *v_1) r = &MAP_INIT[i].f1; return r;'),
    'map_dtor': (r'^_ZNSt3mapIcN6engine5PieceESt4lessIcESaISt4pairIKcS1_EEED2Ev$', ''),
    'palloc_c': (r'^_ZNSaISt4pairIKcN6engine5PieceEEEC2Ev$', ''), 'palloc_d': (r'^_ZNSaISt4pairIKcN6engine5PieceEEED2Ev$', ''),
    # move text (uci / parse_uci)
    'str_pluseq': ('^' + STR + 'pLEc$', 'if (v_0->f0.f0 != &UBUF[0]) { for (uint64_t i = 0; i < 8; i++) if (i < v_0->f1) UBUF[i] = v_0->f0.f0[i]; v_0->f0.f0 = &UBUF[0]; } if (v_0->f1 < 8) UBUF[v_0->f1] = v_1; else overflow = 1; v_0->f1++; return v_0;'),
    'str_move': ('^' + STR + r'C2EOS4_$', 'v_0->f0.f0 = v_1->f0.f0; v_0->f1 = v_1->f1;'),
    'str_size': (r'^_ZNKSt7__cxx1112basic_stringIcSt11char_traitsIcESaIcEE4sizeEv$', 'return v_0->f1;'),
    'str_substr': (r'^_ZNKSt7__cxx1112basic_stringIcSt11char_traitsIcESaIcEE6substrEmm$', 'v_0->f0.f0 = v_1->f0.f0; v_0->f1 = 0;'),
    'str_plus': (r'^_ZStplIcSt11char_traitsIcESaIcEENSt7__cxx1112basic_stringIT_T0_T1_EEPKS5_OS8_$', 'v_0->f0.f0 = v_2->f0.f0; v_0->f1 = 0;'),
    'rt_err': (r'^_ZNSt13runtime_errorC1ERKNSt7__cxx1112basic_stringIcSt11char_traitsIcESaIcEEE$', ''),
    'hk_init': (r'^_ZN6engine7HashKey4initERKNS_8PositionE$', ''), 'hk_key': (r'^_ZNK6engine7HashKey7get_keyEv$', 'return nondet_u64();'),
}

FIXED = {'castle_all': 'r3k2r/8/8/8/8/8/8/R3K2R', 'castle_Kq': 'r3k3/8/8/8/8/8/8/4K2R', 'castle_Qk': '4k2r/8/8/8/8/8/8/R3K3', 'ep': '4k3/8/8/pP6/6pP/8/8/4K3',
         'mixed': '1n2k1r1/8/2q5/8/8/5B2/8/R3K3'}
def fixed_placement(board):
    out = []; rows = board.split('/')
    for ri, row in enumerate(rows):
        f = 0
        for ch in row:
            if ch.isdigit(): f += int(ch)
            else: out.append((' PNBRQKpnbrqk'.index(ch), 8 * (7 - ri) + f)); f += 1
    return out

def build_fen(ctx):
    names_all = ['h_uci_roundtrip'] + ['h_fen_fixed_' + k for k in FIXED] + ([] if ctx.tier == 'quick' else ['h_fen_rank1', 'h_fen_rank8', 'h_fen_Kk'])
    names_all = [n for n in names_all if not ctx.only or re.search(ctx.only, n)]
    if not names_all: return [], []
    ctx.nopic = True      # text-producing code: a lookup table of string literals must stay an array of pointers
    try: m = ctx.module(['position', 'types', 'zobrist_hash', 'bithacks', 'move_bitboards'], tag='fen')
    finally: ctx.nopic = False
    allf = [k[1:] if k.startswith('@') else k for k in m.funcs]
    layout.field_header(ctx, m, [layout.POSITION_FIELDS], ['position.h'])     # before the cut below: member offsets are taken from the unmodified layout
    import ll2c
    pos_t = m.types['%"class.engine::Position"']
    if isinstance(pos_t.els[-1], ll2c.TArr) and pos_t.els[-1].n == 800:
        pos_t.els[-1].n = 8     # Position::_history: only entry 0 is written by the reader; CBMC pays for the whole object on every symbolic-index write
        ctx.notes.append('FEN harness: Position::_history cut to 8 entries in the model (the constructor writes entry 0 only)')
    S = {}
    for k, (rx, body) in FEN_LIB.items():
        got = [f for f in allf if re.search(rx, f)]
        if len(got) != 1: raise Broken('library surface of the FEN reader/writer changed: %s -> %s' % (rx, got))
        S[k] = got[0]
    c, h, info = ctx.translate(m, [FEN_CT, FEN_WR, UCI_WR, UCI_RD], stubs=list(S.values()), out='engfen')
    header = open(h).read()
    mm = re.search(r'%s\(struct (\w+) \*v_0, struct (\w+) \*v_1,' % re.escape(S['map_ctor']), header)
    if not mm: raise Broken('prototype of the std::map<char, Piece> constructor not found')
    CXA = ['uint8_t *__cxa_allocate_exception(uint64_t v_0) { return &EXC_OBJ[0]; }', 'void __cxa_free_exception(uint8_t *v_0) { }',
           'void __cxa_throw(uint8_t *v_0, uint8_t *v_1, uint8_t *v_2) { threw = 1; __CPROVER_assume(0); }']
    glue = CXA + ['#define UCI_WRITE %s' % UCI_WR, '#define UCI_READ %s' % UCI_RD, 'static struct %s *MAP_INIT;' % mm.group(2), '#define FEN_WRITE %s' % FEN_WR, '#define FEN_READ %s' % FEN_CT] + [proto_stub(header, S[k], FEN_LIB[k][1]) for k in FEN_LIB] + ['void _ZN6engine7HashKeyC1Ev(struct S_class_engine__HashKey *v_0) { }']   # C1 is an alias of the (trivial) C2 constructor: external in the translation
    open(ctx.path('c16_fen_stubs.h'), 'w').write('\n'.join(glue) + '\n')
    open(ctx.path('eng.h'), 'w').write('#include "engfen.h"\n')
    H = ['#include "c16_fen.c"']; qn = []
    for n in names_all:
        if n == 'h_uci_roundtrip':
            qn.append((n, [6, 12])); continue
        if n.startswith('h_fen_fixed_'):
            pl = fixed_placement(FIXED[n[len('h_fen_fixed_'):]])
            H.append('void %s(void) { static const uint32_t pcs[] = {%s}; static const uint32_t sqs[] = {%s}; fen_fixed_case(pcs, sqs, %d); }' % (n, ','.join(str(a) for a, b in pl), ','.join(str(b) for a, b in pl), len(pl)))
            qn.append((n, [6, 12] + [1] * 6)); continue
        if n.startswith('h_fen_rank'):
            H.append('void %s(void) { fen_rank_case(%d); }' % (n, int(n[-1]) - 1)); qn.append((n, [6, 12] + [1] * 6)); continue
        mat = material.parse(n[len('h_fen_'):])
        H.append('void %s(void) { static const uint32_t mat[] = %s; fen_case(mat, %d, %d); }' % (n, material.cinit(mat), len(mat), max(mat.count(x) for x in set(mat))))
        qn.append((n, mat))
    hp = ctx.path('h_c16_fen.c'); open(hp, 'w').write('\n'.join(H) + '\n')
    D = ['S_USE_BITBOARD_ORACLE']
    gb = ctx.gotocc('c16fen', [c, hp], D); gbw = ctx.gotocc('c16fenw', [c, hp], D + ['WITNESS'])
    qs, ws = [], []
    for n, mat in qn:
        us = dict(mc_unwind(len(mat)))
        us.update({S['str_cstr'] + '.0': 17, S['os_cstr'] + '.0': 9, S['str_eq'] + '.0': 4, S['str_eq'] + '.1': 4, S['map_idx'] + '.0': 13})
        for f in allf:
            if '__fill_a1' in f or 'fill_n' in f: us[f + '.0'] = 66     # std::fill_n of the 64-square board, 13 counts, 7+2 bitboards: concrete trip counts
        us.update({'fen_case.0': 49, 'fen_case.1': 65, 'fen_case.2': 7, 'fen_case.3': 14, 'fen_case.4': 14, FEN_CT + '.0': 40, FEN_CT + '.1': 6, FEN_WR + '.0': 9, FEN_WR + '.1': 9,
              'pos_build.0': 65, 'pos_build.1': len(mat) + 1, 's_king_sq.0': 65, 'fill7.0': 8, 'fen_rank_case.0': 9, 'fen_fixed_case.0': 9, 'h_uci_roundtrip.0': 65, 'h_uci_roundtrip.1': 9, S['str_pluseq'] + '.0': 9, 'roundtrip.0': 49, 'roundtrip.1': 65, 'roundtrip.2': 7, 'roundtrip.3': 14, 'roundtrip.4': 14})
        smp = {'harness': n, 'placement': ('rank %s: every square empty or any of the 12 pieces (one king each), other ranks empty' % n[-1]) if 'rank' in n else ('fixed placement ' + FIXED[n[len('h_fen_fixed_'):]]) if 'fixed' in n else 'ARBITRARY board (every square any piece), any move of legal shape: move text round trip uci() -> parse_uci()' if 'uci' in n else 'material ' + n[len('h_fen_'):] + ' on symbolic squares', 'side/rights/en-passant/clocks': 'symbolic (half-move clock 0..255, ply 1..2000)', 'entries': 'Position::fen() then Position::Position(std::string) as compiled'}
        qs.append(Query(n, gb, n, us, timeout=900 if ctx.tier == 'quick' else 2700, sample=smp, max_unwind={'*': 100}))
        ws.append(Query('w_' + n, gbw, n, us, timeout=900, meta={'of': n}, expect='witness', max_unwind={'*': 100}))
    return qs, ws


def check(ctx):
    m = ctx.module(TUS)
    c, h, info = ctx.translate(m, ENTRIES)
    hp = os.path.join(VERIF, 'harness', 'c16.c')
    gb = ctx.gotocc('c16', [c, hp]); gbw = ctx.gotocc('c16w', [c, hp], ['WITNESS'])
    names = [n for n in HARN if not ctx.only or re.search(ctx.only, n)]
    qs = [Query(n, gb, n, {}, timeout=300, sample={'harness': n, 'fields': 'all values (symbolic)'}) for n in names]
    ws = [Query('w_' + n, gbw, n, {}, timeout=300, meta={'of': n}, expect='witness') for n in names]
    fq, fw = build_fen(ctx)
    res = ctx.run_queries(qs + ws + fq + fw, label='c16')
    wit = [r for r in res if r.q.expect == 'witness']; res = [r for r in res if r.q.expect != 'witness']
    def replay(ctx, r):
        ce = r.ce()
        if r.q.name == 'h_uci_roundtrip':
            exe = ctx.native_bin('uci_replay', [os.path.join(VERIF, 'native', 'uci_replay.cpp')], ['position', 'movegen', 'move_bitboards', 'bithacks', 'types', 'zobrist_hash', 'bitbase', 'endgame'])
            args = [str(ce.get('ce_side', 0)), str(ce.get('ce_aux', 0)), str(ce.get('ce_aux2', 0)), str(ce.get('ce_mv', 0)), str(ce.get('ce_cr', 0))]
            out = ctx.sh([exe] + args, ok=(0, 1))
            txt = ''.join(chr(ce.get('ce_txt', {}).get(i, 0)) for i in range(min(8, ce.get('ce_txtlen', 0))))
            path = report.save_replay(ctx, r.q.name, {'harness': r.q.name, 'side': ce.get('ce_side'), 'piece on the from-square': ce.get('ce_aux'), 'square': ce.get('ce_aux2'), 'move': ce.get('ce_mv'), 'text in the model': txt, 'parsed back in the model': ce.get('ce_mv2'),
                                                      'native_cmd': 'uci_replay ' + ' '.join(args), 'native_output': out.strip().split('\n')})
            return {'confirmed': 'REPRODUCED' in out and 'NOT-REPRODUCED' not in out, 'key': 'uci-roundtrip', 'path': path,
                    'text': 'h_uci_roundtrip: %s | model text "%s" | native: %s' % ('; '.join(d for _, d in r.failed[:2]), txt, out.strip().replace('\n', ' / ')[:300])}
        if r.q.name.startswith('h_fen'):
            n = ce.get('ce_n', 0); pcs = ['%d:%d' % (ce.get('ce_pc', {}).get(i, 0), ce.get('ce_sq', {}).get(i, 0)) for i in range(n)]
            exe = ctx.native_bin('fen_replay', [os.path.join(VERIF, 'native', 'fen_replay.cpp')], ['position', 'movegen', 'move_bitboards', 'bithacks', 'types', 'zobrist_hash', 'bitbase', 'endgame'])
            args = [str(ce.get('ce_side', 0)), str(ce.get('ce_cr', 0)), str(ce.get('ce_ep', 64)), str(ce.get('ce_hm', 0)), str(ce.get('ce_ply', 1))] + pcs
            out = ctx.sh([exe] + args, ok=(0, 1))
            path = report.save_replay(ctx, r.q.name, {'harness': r.q.name, 'position': {'pieces(piece:square)': pcs, 'side': ce.get('ce_side'), 'rights': ce.get('ce_cr'), 'ep': ce.get('ce_ep'), 'halfmove': ce.get('ce_hm'), 'ply': ce.get('ce_ply')},
                                                      'native_cmd': 'fen_replay ' + ' '.join(args), 'native_output': out.strip().split('\n')})
            return {'confirmed': 'REPRODUCED' in out and 'NOT-REPRODUCED' not in out, 'key': 'fen-roundtrip', 'path': path,
                    'text': '%s: %s | native: %s' % (r.q.name, '; '.join(d for _, d in r.failed[:2]), out.strip().replace('\n', ' / ')[:400])}
        exe = ctx.native_bin('c16_replay', [os.path.join(VERIF, 'native', 'c16_replay.cpp')], ['types'])
        out = ctx.sh([exe, r.q.name] + [str(ce.get(k, 0)) for k in ('ce_a', 'ce_b', 'ce_c', 'ce_d', 'ce_e')], ok=(0, 1))
        path = report.save_replay(ctx, r.q.name, {'harness': r.q.name, 'inputs': ce, 'native_output': out.strip()})
        return {'confirmed': 'REPRODUCED' in out and 'NOT-REPRODUCED' not in out, 'key': r.q.name, 'path': path, 'text': '%s inputs %s | %s' % (r.q.name, ce, out.strip()[:200])}
    return report.finish(ctx, res, wit, replay=replay,
        assumptions=['FEN round trip (h_fen_*): Position::fen() and Position::Position(std::string) as compiled; std::string = (pointer, length), ostringstream/istringstream = a character buffer with blank-separated tokens in which a number is ONE token (decimal formatting/parsing by libstdc++ is outside the claim), std::map<char,Piece> = search in the initializer array the real code builds; HashKey::init stubbed (key equality of equal positions is C04); ply counter odd exactly when White is to move (constructor and do_move keep that)',
                     'move text round trip (h_uci_roundtrip): Position::uci and Position::parse_uci as compiled on an ARBITRARY board with any move of legal shape (superset of legal moves in legal positions: castling needs the king at home and the right of the mover for that side, other rights arbitrary; a non-castling king move covers one square; promotion pieces N/B/R/Q); std::string by the same model; a throw from parse_uci counts as failure'],
        bounds={'fields': 'all (from, to) in 0..63, promotion in {none, N, B, R, Q}, both castling codes; move-info: captured 0..6, rights 0..15, ep 0..64, flag, clock 0..255', 'loops': 'none'})
