"""C07 - check, mate, stalemate, repetition, 50-move and material predicates agree with the rules/history."""
import re, os
from pipeline import Query, Broken, VERIF
import layout, material, report
from checks import make_common as mc
from checks import c01

TUS = ['position', 'movegen', 'types', 'bithacks', 'move_bitboards', 'zobrist_hash']
ENTRIES = ['_ZNK6engine8Position11is_in_checkENS_5ColorE', '_ZNK6engine8Position12is_checkmateEv', '_ZNK6engine8Position12is_stalemateEv', '_ZNK6engine8Position11is_repeatedEv',
           '_ZNK6engine8Position20threefold_repetitionEv', '_ZNK6engine8Position6rule50Ev', '_ZNK6engine8Position15enough_materialEv', '_ZNK6engine8Position7is_drawEv']

def check(ctx):
    m = ctx.module(TUS)
    tables = ctx.dump_tables()
    import shutil
    c, h, info = ctx.translate(m, ENTRIES, stubs=c01.SLIDERS + ['_ZN6engine14generate_movesERKNS_8PositionENS_5ColorEPj'], overrides=tables)
    layout.field_header(ctx, m, [layout.POSITION_FIELDS, layout.HASHKEY_FIELDS], ['position.h'])
    quick = ctx.tier == 'quick'
    chk = [material.parse(x) for x in (('KPkr', 'KNkq', 'KBkp') if quick else ('KPkr', 'KNkq', 'KBkp', 'KRkn', 'KQkb', 'KPkp', 'KRRkq', 'KBNkr'))]
    mate = [(material.parse(x), s) for x, s in ((('KQk', 1), ('Kkr', 0)) if quick else (('KQk', 1), ('Kkr', 0), ('KPk', 1), ('KRk', 1), ('Kkq', 0), ('KQk', 0), ('KPkp', 0)))]
    H = ['#include "c07.c"']; names = []
    for x in ('h_oracles_agree', 'h_repetition', 'h_rule50', 'h_material', 'h_is_draw'):
        names.append((x, {'harness': x, 'inputs': 'symbolic (arbitrary board / history of up to %d keys / clock 0..255 / all count vectors 0..10)' % (12 if quick else 100)}, [6, 12]))
    for mat in chk:
        for side in (0, 1):
            fn = 'h_incheck_%s_%s' % (material.name(mat), 'wb'[side])
            H.append('void %s(void) { static const uint32_t mat[] = %s; incheck_case(mat, %d, %d); }' % (fn, material.cinit(mat), len(mat), side))
            names.append((fn, {'material': material.name(mat), 'side_to_move': 'wb'[side], 'predicate': 'is_in_check (both colours)'}, mat))
    for mat, side in mate:
        fn = 'h_mate_%s_%s' % (material.name(mat), 'wb'[side])
        H.append('void %s(void) { static const uint32_t mat[] = %s; mate_case(mat, %d, %d); }' % (fn, material.cinit(mat), len(mat), side))
        names.append((fn, {'material': material.name(mat), 'side_to_move': 'wb'[side], 'predicate': 'is_checkmate / is_stalemate'}, mat))
    hp = ctx.path('h_c07.c'); open(hp, 'w').write('\n'.join(H) + '\n')
    D = ['S_USE_BITBOARD_ORACLE', 'MATE_LOGIC', 'HMAX=%d' % (12 if quick else 100)]
    gb = ctx.gotocc('c07', [c, hp], D); gbw = ctx.gotocc('c07w', [c, hp], D + ['WITNESS'])
    qs, ws = [], []
    to = 900 if quick else 2700
    for fn, smp, mat in names:
        if ctx.only and not re.search(ctx.only, fn): continue
        us = mc.unwindset(len(mat))
        us.update({'h_oracles_agree.0': 65, 'h_repetition.0': 101, 'h_repetition.1': 101, 'h_material.0': 14, 'h_is_draw.0': 7, 'h_is_draw.1': 14,
                   '_ZNK6engine8Position11is_repeatedEv.0': 101, '_ZNK6engine8Position20threefold_repetitionEv.0': 101})
        qs.append(Query(fn, gb, fn, us, timeout=to, sample=smp, max_unwind={'*': 102}))
        ws.append(Query('w_' + fn, gbw, fn, us, timeout=to, sample=smp, meta={'of': fn}, expect='witness', max_unwind={'*': 102}))
    res = ctx.run_queries(qs + ws, label='c07')
    wit = [r for r in res if r.q.expect == 'witness']; res = [r for r in res if r.q.expect != 'witness']
    def replay(ctx, r):
        import fen as F
        ce = r.ce()
        if r.q.name.startswith(('h_incheck', 'h_mate')):
            fen = F.from_ce(ce)
            exe = ctx.native_bin('pred_replay', [os.path.join(VERIF, 'native', 'pred_replay.cpp')], mc.NATIVE_TUS)
            out = ctx.sh([exe, fen], ok=(0, 1))
            path = report.save_replay(ctx, r.q.name, {'harness': r.q.name, 'fen': fen, 'native_output': out.strip().split('\n')})
            return {'confirmed': 'REPRODUCED' in out and 'NOT-REPRODUCED' not in out, 'key': r.q.name.split('_')[1], 'path': path, 'text': '%s: "%s" | %s' % (r.q.name, fen, out.strip().replace('\n', ' / ')[:300])}
        path = report.save_replay(ctx, r.q.name, {'harness': r.q.name, 'inputs': ce, 'failed': [d for _, d in r.failed]})
        # pure functions of a few integers: the trace itself is the witness; strict = report as violation
        return {'confirmed': None, 'strict': r.q.name != 'h_oracles_agree', 'key': r.q.name, 'path': path, 'text': '%s: %s inputs %s' % (r.q.name, '; '.join(d for _, d in r.failed[:2]), {k: v for k, v in ce.items() if k in ('ce_aux', 'ce_pc')})}
    return report.finish(ctx, res, wit, replay=replay,
        assumptions=['slider_attack<> by contract (C11); positions RI + one-ply retro-legal',
                     'repetition predicates are checked against arbitrary key histories; that keys identify positions is C04, that do_move/undo_move maintain the history is C02/C03',
                     'is_checkmate/is_stalemate are checked with the move generator replaced by a stub returning an arbitrary number of moves; that an empty list means no legal move exists is C01'],
        bounds={'is_in_check material': [material.name(x) for x in chk], 'mate/stalemate': ['%s/%s' % (material.name(x), 'wb'[s]) for x, s in mate],
                'history length': '1..%d keys (longer histories: same loop, outside the unwinding bound)' % (12 if quick else 100), 'clock': '0..255', 'piece counts': 'all vectors with 0..10 per kind'})
