"""C20 - time allocation never exceeds the clock (assume/guarantee over importance, single IEEE operations, computeTimeForFixedLength, calculateTime)."""
import re, os, shutil
from pipeline import Query, Broken, VERIF
import layout, report

TUS = ['time_manager']
CALC = '_ZN6engine11TimeManager13calculateTimeERKNS_6LimitsENS_5ColorEi'
FIXED = '_ZN6engine11TimeManager25computeTimeForFixedLengthElii'
IMP = '_ZN6engine10importanceEd'
LIMITS = ('LIM_', 'Limits', '%"struct.engine::Limits"', ['timeleft', 'timeinc', 'movestogo', 'depth', 'nodes', 'movetime', 'infinite', 'searchmovesnum', 'searchmoves'])
ASSUMED_LEMMAS = ('l_mul', 'l_mono', 'l_70')

def check(ctx):
    quick = ctx.tier == 'quick'
    m = ctx.module(TUS)
    layout.field_header(ctx, m, [LIMITS], ['types.h'])
    hp = os.path.join(VERIF, 'harness', 'c20.c')
    nmax = int(os.environ.get('C20_NMAX', '50' if quick else '200'))
    bins = {}
    for part, ents, stubs, defs in (('I', [IMP], [], []), ('L', [IMP], [], []), ('A', [FIXED], [IMP], ['LL2C_FP_ABSTRACT', 'NMAX=%d' % nmax]), ('B', [CALC], [FIXED], ['LL2C_FP_ABSTRACT', 'NMAX=%d' % nmax])):
        c, _, _ = ctx.translate(m, ents, stubs=stubs, out='eng')
        cp = ctx.path('eng_%s.c' % part); shutil.copy(c, cp)
        bins[part] = (ctx.gotocc('c20' + part, [cp, hp], ['PART_' + part] + defs), ctx.gotocc('c20w' + part, [cp, hp], ['PART_' + part, 'WITNESS'] + defs))
    names = [('h_importance', 'I', {'function': 'importance(x) as compiled (precise IEEE; exp/pow by contract)', 'x': '0..1500'}),
             ('l_add', 'L', {'lemma': 'IEEE addition'}), ('l_div', 'L', {'lemma': 'IEEE division'}), ('l_trunc', 'L', {'lemma': 'double -> long truncation'}),
             ('l_mul', 'L', {'lemma': 'IEEE multiplication range (attempted)'}), ('l_mono', 'L', {'lemma': 'IEEE multiplication monotone (attempted)'}), ('l_70', 'L', {'lemma': 'trunc(0.7*t) <= 70% (attempted)'}),
             ('h_fixed', 'A', {'function': 'computeTimeForFixedLength as compiled; importance() and IEEE operations by contract', 'movesToGo': '1..%d (symbolic)' % nmax, 'totalTime': '0..2^31-1 (pair T1<=T2)', 'ply': '0..1000'}),
             ('h_calc_bounds', 'B', {'function': 'calculateTime as compiled; fixed-length routine by contract (A); non-negative and <= 70%', 'remaining': '0..86400000 ms', 'increment': '0..600000', 'movestogo': '0..%d' % nmax, 'ply': '0..1000', 'side': 'both'}),
             ('h_calc_monotone', 'B', {'function': 'calculateTime as compiled; fixed-length routine by contract (A); monotone in the remaining time', 'remaining': '0..86400000 ms (pair t1<=t2)', 'increment': '0..600000', 'movestogo': '0..%d' % nmax, 'ply': '0..1000', 'side': 'both'})]
    qs, ws = [], []
    to = 600 if quick else 3000
    for fn, part, smp in names:
        if ctx.only and not re.search(ctx.only, fn): continue
        us = {FIXED + '.0': nmax + 1, CALC + '.0': 201}
        t = to if fn not in ASSUMED_LEMMAS else (120 if quick else 1800)
        if fn == 'h_calc_monotone' and quick: t = 240
        qs.append(Query(fn, bins[part][0], fn, us, timeout=t, sample=smp, max_unwind={'*': 210}, solver='kissat' if fn not in ASSUMED_LEMMAS else 'kissat'))
        if fn not in ASSUMED_LEMMAS: ws.append(Query('w_' + fn, bins[part][1], fn, us, timeout=to, meta={'of': fn}, expect='witness', max_unwind={'*': 210}))
    res = ctx.run_queries(qs + ws, label='c20')
    wit = [r for r in res if r.q.expect == 'witness']; res = [r for r in res if r.q.expect != 'witness']
    assumed = [r.q.name for r in res if r.q.name in ASSUMED_LEMMAS and r.status != 'pass']
    proved = [r.q.name for r in res if r.q.name in ASSUMED_LEMMAS and r.status == 'pass']
    def replay(ctx, r):
        ce = r.ce()
        if r.q.name.startswith('h_calc'):
            exe = ctx.native_bin('c20_replay', [os.path.join(VERIF, 'native', 'c20_replay.cpp')], ['time_manager'], defines=[])
            args = [str(ce.get(k, 0)) for k in ('ce_t1', 'ce_t2', 'ce_inc', 'ce_mtg', 'ce_ply', 'ce_side')]
            out = ctx.sh([exe] + args, ok=(0, 1))
            path = report.save_replay(ctx, r.q.name, {'harness': r.q.name, 'inputs': ce, 'native_output': out.strip()})
            conf = 'REPRODUCED' in out and 'NOT-REPRODUCED' not in out
            # a contract-level counterexample need not be realisable with the real libm / IEEE values: search the neighbourhood natively
            if not conf:
                out2 = ctx.sh([exe, 'scan'] + args, ok=(0, 1)); conf = 'REPRODUCED' in out2 and 'NOT-REPRODUCED' not in out2; out += out2
            return {'confirmed': True if conf else None, 'strict': True, 'key': 'calc', 'path': path, 'text': '%s inputs %s | %s' % (r.q.name, {k: ce.get(k) for k in ('ce_t1', 'ce_t2', 'ce_inc', 'ce_mtg', 'ce_ply', 'ce_side')}, out.strip()[:300])}
        path = report.save_replay(ctx, r.q.name, {'harness': r.q.name, 'inputs': ce})
        return {'confirmed': None, 'strict': True, 'key': r.q.name, 'path': path, 'text': '%s: %s (contract-level obligation; inputs %s)' % (r.q.name, '; '.join(d for _, d in r.failed[:2]), {k: v for k, v in ce.items() if not isinstance(v, dict)})}
    return report.finish(ctx, res, wit, replay=replay,
        assumptions=['libm exp/pow replaced by contracts: exp(x) in [0, 1e300], pow(b>=1, e<0) in [0,1]',
                     'IEEE-754 facts about MULTIPLICATION are assumed, not proved: for 0<=r<=1, x>=0: 0<=fl(r*x)<=x and fl(r*x) monotone in x; 10*trunc(fl(0.7*t))<=7*t and monotone for 0<=t<=86400000. '
                     'They are attempted as queries (l_mul, l_mono, l_70) with kissat; bit-blasted double multiplication did not finish with any back end (kissat, cadical, minisat, z3, cvc5, cvc5 --solve-bv-as-int) in 300 s. '
                     'This run: still assumed = %s; proved = %s' % (assumed, proved),
                     'IEEE addition/division/truncation facts are proved precisely (l_add, l_div, l_trunc); importance() is proved on precise IEEE arithmetic',
                     'IEEE-754 double semantics as compiled by clang without -ffast-math; the release build uses -Ofast, which may reassociate floating point',
                     'contract-level counterexamples (importance/IEEE values the real libm never produces) are replayed natively; if they do not reproduce they are still reported (strict) because the contract is what the proof rests on'],
        bounds={'remaining': '0..86400000 ms', 'increment': '0..600000 ms', 'movestogo': '0..%d (0 means 50; quick tier 0..50, thorough 0..200)' % nmax, 'ply': '0..1000', 'colours': 'both',
                'fixed-length routine': 'total time 0..2^31-1, movesToGo 1..%d (all, symbolic)' % nmax},
        extra={'assumed_ieee_multiplication_lemmas': assumed})
