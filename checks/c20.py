"""C20 - time allocation never exceeds the clock (TimeManager::calculateTime / computeTimeForFixedLength)."""
import re, os
from pipeline import Query, Broken, VERIF
import layout, report

TUS = ['time_manager']
CALC = '_ZN6engine11TimeManager13calculateTimeERKNS_6LimitsENS_5ColorEi'
FIXED = '_ZN6engine11TimeManager25computeTimeForFixedLengthElii'
LIMITS = ('LIM_', 'Limits', '%"struct.engine::Limits"', ['timeleft', 'timeinc', 'movestogo', 'depth', 'nodes', 'movetime', 'infinite', 'searchmovesnum', 'searchmoves'])

def check(ctx):
    m = ctx.module(TUS)
    layout.field_header(ctx, m, [LIMITS], ['types.h'])
    hp = os.path.join(VERIF, 'harness', 'c20.c')
    cA, _, _ = ctx.translate(m, [FIXED, CALC], stubs=['@exp', '@pow'] if False else [], out='eng')   # exp/pow are external declarations: modelled in the harness
    bins = {}
    for part, stubs in (('A', []), ('B', [FIXED]), ('C', [])):
        c, _, _ = ctx.translate(m, [FIXED, CALC] if part != 'B' else [CALC], stubs=stubs, out='eng')
        import shutil
        cp = ctx.path('eng_%s.c' % part); shutil.copy(c, cp)
        bins[part] = (ctx.gotocc('c20' + part, [cp, hp], ['PART_' + part]), ctx.gotocc('c20w' + part, [cp, hp], ['PART_' + part, 'WITNESS']))
    ns = [1, 2, 3, 4, 5, 6] if ctx.tier == 'quick' else [1, 2, 3, 4, 5, 6, 8, 10, 12, 16]
    names = [('h_fixed_%d' % n, 'A', {'function': 'computeTimeForFixedLength', 'movesToGo': n, 'totalTime': '0..2^31-1 (symbolic pair T1<=T2)', 'ply': '0..1000'}, {'fixed_case.0': 1}) for n in ns]
    names.append(('h_calc_contract', 'B', {'function': 'calculateTime with the fixed-length routine replaced by its contract', 'remaining': '0..86400000 ms (pair t1<=t2)',
                                           'increment': '0..600000', 'movestogo': '0..200', 'ply': '0..1000', 'side': 'both'}, {}))
    names.append(('h_calc_real_mtg3', 'C', {'function': 'calculateTime with the real fixed-length routine', 'movestogo': '1..3'}, {}))
    if ctx.tier != 'quick': names.append(('h_calc_real_mtg5', 'C', {'function': 'calculateTime with the real fixed-length routine', 'movestogo': '1..5'}, {}))
    qs, ws = [], []
    to = 900 if ctx.tier == 'quick' else 3000
    for fn, part, smp, _ in names:
        if ctx.only and not re.search(ctx.only, fn): continue
        us = {FIXED + '.0': 17, CALC + '.0': 201}
        qs.append(Query(fn, bins[part][0], fn, us, timeout=to, sample=smp, max_unwind={'*': 210}))
        ws.append(Query('w_' + fn, bins[part][1], fn, us, timeout=to, meta={'of': fn}, expect='witness', max_unwind={'*': 210}))
    res = ctx.run_queries(qs + ws, label='c20')
    wit = [r for r in res if r.q.expect == 'witness']; res = [r for r in res if r.q.expect != 'witness']
    def replay(ctx, r):
        ce = r.ce()
        exe = ctx.native_bin('c20_replay', [os.path.join(VERIF, 'native', 'c20_replay.cpp')], ['time_manager'], defines=[])
        args = [str(ce.get(k, 0)) for k in ('ce_t1', 'ce_t2', 'ce_inc', 'ce_mtg', 'ce_ply', 'ce_side')]
        out = ctx.sh([exe] + args, ok=(0, 1))
        path = report.save_replay(ctx, r.q.name, {'harness': r.q.name, 'inputs': ce, 'native_output': out.strip()})
        if r.q.name.startswith('h_fixed'):
            return {'confirmed': None, 'text': '%s: contract of the fixed-length routine violated under the libm contracts: %s' % (r.q.name, ce), 'path': path, 'key': r.q.name}
        return {'confirmed': 'REPRODUCED' in out and 'NOT-REPRODUCED' not in out, 'key': 'calc', 'path': path, 'text': '%s inputs %s | %s' % (r.q.name, {k: ce.get(k) for k in ('ce_t1', 'ce_t2', 'ce_inc', 'ce_mtg', 'ce_ply', 'ce_side')}, out.strip()[:300])}
    return report.finish(ctx, res, wit, replay=replay,
        assumptions=['libm exp/pow replaced by contracts: exp(x) in [0, 1e300] for |x| < 250, pow(b>=1, e<0) in [0,1], same argument => same value',
                     'computeTimeForFixedLength contract (result in [0,T], monotone in T) is PROVED for movesToGo in %s and ASSUMED for larger movesToGo up to 200 (each extra iteration is one more bit-blasted FP addition)' % ns,
                     'IEEE-754 double semantics as compiled by clang without -ffast-math; the release build uses -Ofast, which may reassociate floating point',
                     'a counterexample that depends on values of exp/pow that the real libm never returns would not reproduce natively and is reported as an encoding disagreement'],
        bounds={'remaining': '0..86400000 ms', 'increment': '0..600000 ms', 'movestogo': '0..200 (0 means 50)', 'ply': '0..1000', 'colours': 'both',
                'fixed-length routine': 'total time 0..2^31-1, movesToGo in %s' % ns})
