"""C01 - legal move generation is exact (generate_moves vs the independent rules reference)."""
import re, os, subprocess
from pipeline import Query, Broken, VERIF
import layout, material, report
from checks import make_common as mc

TUS = ['movegen', 'position', 'types', 'bithacks', 'move_bitboards']
ENTRIES = ['_ZN6engine14generate_movesERKNS_8PositionENS_5ColorEPj']
SLIDERS = ['_ZN6engine13slider_attackILNS_9PieceKindE3EEEmNS_6SquareEm', '_ZN6engine13slider_attackILNS_9PieceKindE4EEEmNS_6SquareEm', '_ZN6engine13slider_attackILNS_9PieceKindE5EEEmNS_6SquareEm']
SC = {'': 0, 'ep': 1, 'castle': 2, 'check': 4, 'eprank': 9}

def cases(tier):
    """(material string, scenario) pairs"""
    if tier == 'quick': return [('KPk', ''), ('Kkp', ''), ('KNk', '', 'w'), ('KRk', '', 'w'), ('KPkpb', 'ep', 'w'), ('KQkPp', 'eprank', 'b'), ('KRRk', 'castle', 'w')]
    t = [(material.name(m), '') for m in material.M(3)]
    t += [('KPkp', 'ep'), ('KPkpb', 'ep'), ('KPkpr', 'ep'), ('KPkpq', 'ep'), ('KBkPp', 'ep'), ('KRkPp', 'ep'), ('KQkPp', 'ep'), ('KQkPp', 'eprank'), ('KPkpq', 'eprank'), ('KPPkp', 'ep'), ('KPkpp', 'ep'),
          ('KRRk', 'castle'), ('Kkrr', 'castle'), ('KRRkn', 'castle'), ('KRRkb', 'castle'), ('KRRkr', 'castle'), ('KRRkq', 'castle'), ('KRRkp', 'castle'),
          ('KNkrr', 'castle'), ('KBkrr', 'castle'), ('KRkrr', 'castle'), ('KQkrr', 'castle'), ('KPkrr', 'castle'),
          ('KPkr', ''), ('KRkp', ''), ('KPkn', ''), ('KNkp', ''), ('KPkq', ''), ('KQkp', ''), ('KPkb', ''), ('KBkp', ''),
          ('KRkb', 'check'), ('KBkr', 'check'), ('KNkq', 'check'), ('KQkn', 'check'), ('KRkr', ''), ('KBkb', ''), ('KQkq', ''), ('KNkn', ''),
          ('KRkbn', 'check'), ('KBNkr', 'check'), ('KQkrb', 'check'), ('KRBkq', 'check')]
    return t

def loop_bounds(ctx, gb, mat):
    """initial per-loop unwind bounds for the engine's move generator, derived from the material"""
    out = subprocess.run(['goto-instrument', '--show-loops', gb], stdout=subprocess.PIPE, stderr=subprocess.STDOUT).stdout.decode()
    loops = re.findall(r'^Loop (\S+):', out, re.M)
    cnt = lambda *pcs: sum(mat.count(p) for p in pcs)
    us = {}
    for l in loops:
        fn = l.rsplit('.', 1)[0]
        if not fn.startswith('_ZN6engine') and not fn.startswith('_ZNK6engine'): continue
        b = 3
        if 'generate_pawn_moves' in fn: b = max(cnt(1), cnt(7)) + 1
        elif 'generate_piece_movesILNS_9PieceKindE2' in fn: b = 9
        elif 'generate_piece_movesILNS_9PieceKindE3' in fn: b = 14
        elif 'generate_piece_movesILNS_9PieceKindE4' in fn: b = 15
        elif 'generate_piece_movesILNS_9PieceKindE5' in fn: b = 28
        elif 'generate_king_moves' in fn: b = 9
        elif 'generate_pinned_piece_moves' in fn: b = 8
        elif 'forbidden_squares' in fn or 'generate_legal_moves' in fn: b = max(max(cnt(p), cnt(p + 6)) for p in (1, 2, 3, 4, 5)) + 2
        us[l] = b
    return us

def check(ctx):
    m = ctx.module(TUS)
    tables = ctx.dump_tables()
    c, h, info = ctx.translate(m, ENTRIES, stubs=SLIDERS, overrides=tables)
    layout.field_header(ctx, m, [layout.POSITION_FIELDS, layout.HASHKEY_FIELDS], ['position.h'])
    cs = cases(ctx.tier)
    H = ['#include "c01.c"']; names = []
    for case in cs:
        ms, sc = case[0], case[1]
        mat = material.parse(ms)
        for side in (0, 1):
            if len(case) > 2 and 'wb'[side] != case[2]: continue
            if sc == 'castle' and not ((side == 0 and 4 in mat) or (side == 1 and 10 in mat)): continue
            if sc in ('ep', 'eprank') and not ((side == 0 and 1 in mat and 7 in mat) or (side == 1 and 7 in mat and 1 in mat)): continue
            for kind in ('sound', 'complete'):
                fn = 'h_%s_%s_%s%s' % (kind, ms, 'wb'[side], ('_' + sc) if sc else '')
                H.append('void %s(void) { static const uint32_t mat[] = %s; %s_case(mat, %d, %d, %d); }' % (fn, material.cinit(mat), kind, len(mat), side, SC[sc]))
                names.append((fn, {'material': ms, 'side_to_move': 'wb'[side], 'scenario': sc or 'any', 'direction': kind, 'squares/rights/ep/move': 'symbolic'}, mat))
    hp = ctx.path('h_c01.c'); open(hp, 'w').write('\n'.join(H) + '\n')
    D = ['S_USE_BITBOARD_ORACLE']
    gb = ctx.gotocc('c01', [c, hp], D); gbw = ctx.gotocc('c01w', [c, hp], D + ['WITNESS'])
    qs, ws = [], []
    to = 800 if ctx.tier == 'quick' else 2700
    for fn, smp, mat in names:
        if ctx.only and not re.search(ctx.only, fn): continue
        us = mc.unwindset(len(mat)); us.update(loop_bounds(ctx, gb, mat)); us.update({'complete_case.0': 97, 'scenario.0': 9})
        qs.append(Query(fn, gb, fn, us, timeout=to, sample=smp, meta={'mat': mat}, max_unwind={'*': 40}))
        ws.append(Query('w_' + fn, gbw, fn, us, timeout=to, sample=smp, meta={'of': fn}, expect='witness', max_unwind={'*': 40}))
    res = ctx.run_queries(qs + ws, label='c01')
    wit = [r for r in res if r.q.expect == 'witness']; res = [r for r in res if r.q.expect != 'witness']
    def replay(ctx, r):
        import fen as F
        ce = r.ce(); fen = F.from_ce(ce)
        exe = ctx.native_bin('movegen_replay', [os.path.join(VERIF, 'native', 'movegen_replay.cpp')], mc.NATIVE_TUS)
        out = ctx.sh([exe, fen], ok=(0, 1, 3))
        path = report.save_replay(ctx, r.q.name, {'harness': r.q.name, 'fen': fen, 'native_output': out.strip().split('\n')})
        mm = re.search(r'^(MISSING|ILLEGAL|DUPLICATE) (\S+)', out, re.M)
        key = 'movegen'
        if mm:
            key = mm.group(1).lower()
            if 'MISSING' in out and 'pinned-ep' in out: key = 'missing-pinned-enpassant'
        return {'confirmed': 'REPRODUCED' in out and 'NOT-REPRODUCED' not in out, 'key': key, 'path': path,
                'text': '%s: position "%s" | native: %s' % (r.q.name, fen, ' / '.join(l for l in out.split('\n') if l[:4] in ('MISS', 'ILLE', 'DUPL'))[:300])}
    return report.finish(ctx, res, wit, replay=replay,
        assumptions=['slider_attack<> replaced by its contract (occluded ray walk), proved by C11 for every square and occupancy',
                     'geometry tables (RAYS, LINES, KNIGHT/KING_MASK, CASTLING_PATHS) dumped from the real init() on every run',
                     'rules reference rt/chess_spec.h (mailbox; attack test in the bit-parallel form proved equal to the mailbox ray walk by the C07 lemma) is trusted; '
                     'it is cross-validated natively against the engine on the six classic perft positions by native/movegen_replay',
                     'positions: RI + one-ply retro-legal (side not to move not in check, en-passant square behind a pawn whose double push was legal, rights consistent)'],
        bounds={'cases': ['/'.join(x for x in c if x) for c in cs], 'sides': 'both', 'squares/rights/en-passant/move': 'symbolic',
                'outside': 'material not listed (in particular >= 3 non-king pieces outside the scenario families); generate_quiescence_moves'})
