"""C04 - the key is a function of the position: incremental updates of do_move/do_null_move equal the definition, and
HashKey::init (from-scratch key) equals the definition, for every Zobrist table."""
import material, report
from checks import make_common as mc

def mats(tier):
    if tier == 'quick': return [material.parse(x) for x in ('KPk', 'Kkp', 'KRk', 'KRkr', 'KPkp', 'KRkp')]
    t5 = [material.parse(x) for x in ('KRRkr', 'KPPkp', 'KRPkp', 'KPkrr', 'KQPkp', 'KBNkp', 'KRkpp', 'KRRkp')]
    return material.M(3) + material.M(4) + t5

def check(ctx):
    ms = mats(ctx.tier)
    nm = [material.parse(x) for x in (('KPkp',) if ctx.tier == 'quick' else ('KPk', 'KRkp', 'KPkp'))]
    im = [material.parse(x) for x in (('KPkp', 'KNBkq') if ctx.tier == 'quick' else ('KPkp', 'KRkq', 'KNBkp', 'KQRkbn', 'KPPkrp', 'KRRkrr'))]
    qs, ws = mc.build(ctx, 'CHECK_C04', ms, nm, timeout=600 if ctx.tier == 'quick' else 2700, init_mats=im)
    res = ctx.run_queries(qs + ws, label='c04')
    wit = [r for r in res if r.q.expect == 'witness']; res = [r for r in res if r.q.expect != 'witness']
    return report.finish(ctx, res, wit, replay=mc.replay('c04'),
        assumptions=mc.ASSUME + ['"different positions get different keys" is reduced to: the definition XORs a distinct table cell for every differing component; '
                                 '64-bit collision odds of the random tables are outside the claim',
                                 'equal positions => equal keys follows by induction: base = HashKey::init equals the definition (h_init_*), step = every do_move/do_null_move/undo keeps '
                                 'key == definition(new position) (h_make_*/h_null_*, undo restoring the components is C03)'],
        bounds={'material': [material.name(m) for m in ms], 'null-move material': [material.name(m) for m in nm], 'init material': [material.name(m) for m in im],
                'zobrist tables': 'arbitrary (PIECE_HASH via indicator encoding + linearity check; others fully nondeterministic)', 'sides': 'both'})
