"""C03 - unmaking a move (or null move) restores the position exactly (do_move;undo_move and do_null_move;undo_null_move)."""
import material, report
from checks import make_common as mc

def mats(tier):
    if tier == 'quick': return [material.parse(x) for x in ('KPk', 'Kkp', 'KRk', 'KRkr', 'KPkp', 'KQPk')]
    t5 = [material.parse(x) for x in ('KQPkr', 'KNPkb', 'KRRkr', 'KPPkp', 'KRPkp', 'KPkrr', 'KQPkp', 'KBNkp', 'KRkpp', 'KRRkp')]
    return material.M(3) + material.M(4) + t5

def check(ctx):
    ms = mats(ctx.tier)
    nm = [material.parse(x) for x in (('KPkp',) if ctx.tier == 'quick' else ('KPk', 'KRkp', 'KPkp'))]
    qs, ws = mc.build(ctx, 'CHECK_C03', ms, nm, timeout=600 if ctx.tier == 'quick' else 2700)
    res = ctx.run_queries(qs + ws, label='c03')
    wit = [r for r in res if r.q.expect == 'witness']; res = [r for r in res if r.q.expect != 'witness']
    return report.finish(ctx, res, wit, replay=mc.replay('c03'),
        assumptions=mc.ASSUME + ['piece lists are compared as sets (remove_piece swaps with the last entry; every observer named by the property is order-insensitive); '
                                 'because the pre-state list order is arbitrary the one-step result composes to nested make/unmake sequences by induction',
                                 'static evaluation and generated moves after undo follow from field equality (they are functions of the restored fields; purity of the evaluator is C14)'],
        bounds={'material': [material.name(m) for m in ms], 'null-move material': [material.name(m) for m in nm], 'sides': 'both',
                'squares/rights/en-passant/clocks/move': 'symbolic', 'outside': 'histories longer than 799 plies (C10)'})
