"""C18 - opening-book keys follow the Polyglot specification (structure for symbolic positions + published vectors + table digest)."""
import re, os, hashlib
from pipeline import Query, Broken, VERIF
import layout, material, report
from checks import make_common as mc
from checks import c01

TUS = ['polyglot', 'position', 'types', 'movegen']
ENTRY = '_ZN6engine12PolyglotBook4hashERKNS_8PositionE'
# sha256 of the 781 constants (piece table in engine piece order, 4 castling, 8 en-passant, turn) at the pinned commit 8ca830c.
# No independent copy of Polyglot's Random64 exists in this offline image; the nine published vectors exercise a few dozen of them.
DIGEST = None

def consts(ctx, m):
    """castling / turn randoms: clang folds these scalar constants into immediates, so they are read from the current source text"""
    from pipeline import ENGINE
    g = {k: v for k, v in m.globals.items() if 'POLYGLOT' in k}
    src = open(os.path.join(ENGINE, 'polyglot.cpp')).read()
    def scal(name):
        mm = re.search(r'const\s+uint64_t\s+%s\s*=\s*(0x[0-9A-Fa-f]+)ULL\s*;' % name, src)
        if not mm: raise Broken('polyglot constant %s not found in polyglot.cpp' % name)
        return int(mm.group(1), 16)
    return {'CASTLE_WS': scal('POLYGLOT_CASTLING_WHITE_SHORT'), 'CASTLE_WL': scal('POLYGLOT_CASTLING_WHITE_LONG'), 'CASTLE_BS': scal('POLYGLOT_CASTLING_BLACK_SHORT'),
            'CASTLE_BL': scal('POLYGLOT_CASTLING_BLACK_LONG'), 'TURN': scal('POLYGLOT_TURN')}, g

def check(ctx):
    m = ctx.module(TUS)
    cs, g = consts(ctx, m)
    import shutil, linearity
    c, h, info = ctx.translate(m, [ENTRY], stubs=c01.SLIDERS, globals_=['POLYGLOT_PIECEE', 'POLYGLOT_ENPASSANTE'])
    cv = ctx.path('eng_vec.c'); shutil.copy(c, cv)
    # structure queries: the piece table is an environment table (indicator encoding, justified by the XOR-linearity check)
    c, h, info = ctx.translate(m, [ENTRY], stubs=c01.SLIDERS, globals_=['POLYGLOT_ENPASSANTE'], env_tables={'POLYGLOT_PIECEE': 'env_pg_piece'})
    viol = linearity.check(m, ['@' + f for f in info['translated']], [k for k in m.globals if 'POLYGLOT_PIECEE' in k][0], key_types=())
    if viol: raise Broken('PolyglotBook::hash is not syntactically XOR-linear in POLYGLOT_PIECE: ' + '; '.join(viol[:3]))
    ctx.notes.append('XOR-linearity of PolyglotBook::hash in POLYGLOT_PIECE checked on the IR: ok')
    layout.field_header(ctx, m, [layout.POSITION_FIELDS, layout.HASHKEY_FIELDS], ['position.h'])
    # table digest
    import ll2c
    def flat(v):
        if v.kind == 'agg': return [x for e in v.els for x in flat(e)]
        if v.kind == 'zero':
            t = v.ty; n = 1
            while isinstance(t, ll2c.TArr): n *= t.n; t = t.el
            return [0] * n
        return [v.val & ((1 << 64) - 1)]
    pk = [k for k in g if 'POLYGLOT_PIECEE' in k][0]; ek = [k for k in g if 'POLYGLOT_ENPASSANTE' in k][0]
    allc = flat(g[pk][1]) + flat(g[ek][1]) + [cs[k] for k in ('CASTLE_WS', 'CASTLE_WL', 'CASTLE_BS', 'CASTLE_BL', 'TURN')]
    dig = hashlib.sha256(b''.join(x.to_bytes(8, 'little') for x in allc)).hexdigest()
    ref = open(os.path.join(VERIF, 'rt', 'polyglot_digest.txt')).read().split()[0]
    ctx.notes.append('polyglot constants: %d values, sha256 %s (reference %s)' % (len(allc), dig, ref))
    H = ['#include "c18.c"'] + ['uint64_t %s = %dULL;' % kv for kv in cs.items()]; names = []
    ms = [material.parse(x) for x in (('KPkp', 'KRkr', 'KRRkrr', 'KPPkpp') if ctx.tier == 'quick' else ('KPkp', 'KRkr', 'KRRkrr', 'KPPkpp', 'KRRkp', 'KPkrr', 'KQkpn', 'KBNkp', 'KQRBNPkqrbnp', 'KRRPPkrrpp'))]
    for mat in ms:
        for side in (0, 1):
            fn = 'h_key_%s_%s' % (material.name(mat), 'wb'[side])
            H.append('#ifdef STRUCT')
            H.append('void %s(void) { static const uint32_t mat[] = %s; key_case(mat, %d, %d); }' % (fn, material.cinit(mat), len(mat), side))
            H.append('#endif')
            names.append((fn, {'material': material.name(mat), 'side_to_move': 'wb'[side], 'squares/rights/en-passant': 'symbolic'}, mat))
    for i in range(1, 10): names.append(('h_vec_%d' % i, {'published test vector': i}, [6, 12]))
    hp = ctx.path('h_c18.c'); open(hp, 'w').write('\n'.join(H) + '\n')
    D = ['S_USE_BITBOARD_ORACLE']
    D = list(D) + ['NPMAX=12']     # the thorough tier uses material of up to 12 pieces
    gb = ctx.gotocc('c18', [c, hp], D + ['STRUCT']); gbw = ctx.gotocc('c18w', [c, hp], D + ['STRUCT', 'WITNESS'])
    gv = ctx.gotocc('c18v', [cv, hp], D + ['VECTORS']); gvw = ctx.gotocc('c18vw', [cv, hp], D + ['VECTORS', 'WITNESS'])
    qs, ws = [], []
    for fn, smp, mat in names:
        if ctx.only and not re.search(ctx.only, fn): continue
        us = mc.unwindset(len(mat)); us.update({'key_case.0': 65, 'place.0': 9, 'place.1': 10, 'place.2': 14, ENTRY + '.0': 14, ENTRY + '.1': 12})
        b1, b2 = (gv, gvw) if fn.startswith('h_vec') else (gb, gbw)
        qs.append(Query(fn, b1, fn, us, timeout=900, sample=smp, max_unwind={'*': 70}))
        ws.append(Query('w_' + fn, b2, fn, us, timeout=900, sample=smp, meta={'of': fn}, expect='witness', max_unwind={'*': 70}))
    res = ctx.run_queries(qs + ws, label='c18')
    wit = [r for r in res if r.q.expect == 'witness']; res = [r for r in res if r.q.expect != 'witness']
    def replay(ctx, r):
        import fen as F
        ce = r.ce()
        if r.q.name.startswith('h_key'):
            fen = F.from_ce(ce)
            exe = ctx.native_bin('pg_replay', [os.path.join(VERIF, 'native', 'pg_replay.cpp')], mc.NATIVE_TUS + ['polyglot'])
            out = ctx.sh([exe, fen, str(ce.get('ce_want', 0))], ok=(0, 1))
            path = report.save_replay(ctx, r.q.name, {'harness': r.q.name, 'fen': fen, 'expected_key': '%016x' % ce.get('ce_want', 0), 'native_output': out.strip()})
            return {'confirmed': 'REPRODUCED' in out and 'NOT-REPRODUCED' not in out, 'key': 'structure', 'path': path, 'text': '%s: "%s" expected %016x | %s' % (r.q.name, fen, ce.get('ce_want', 0), out.strip()[:200])}
        path = report.save_replay(ctx, r.q.name, {'harness': r.q.name, 'engine_key': '%016x' % ce.get('ce_got', 0), 'published_key': '%016x' % ce.get('ce_want', 0)})
        return {'confirmed': None, 'strict': True, 'key': r.q.name, 'path': path, 'text': '%s: engine key %016x, published %016x' % (r.q.name, ce.get('ce_got', 0), ce.get('ce_want', 0))}
    extra_broken = []
    rc = report.finish(ctx, res, wit, replay=replay,
        assumptions=['the values of the 781 constants can only be compared with a digest recorded at the pinned commit (rt/polyglot_digest.txt): no independent copy of Random64 exists offline; '
                     'a constant that is already wrong at the pinned commit and not touched by the nine published vectors would be missed',
                     'published vectors: the nine (position, key) pairs of the Polyglot format description',
                     'the structure queries refer to the constants by role (piece-square cell of the engine piece code, castling random of a right, en-passant random of a file, turn random)'],
        bounds={'structure material': [material.name(x) for x in ms], 'vectors': 9, 'squares/rights/en-passant': 'symbolic'},
        extra={'polyglot_constants_sha256': dig, 'polyglot_constants_reference_sha256': ref})
    if dig != ref and rc == 0:
        p = report.save_replay(ctx, 'digest', {'constants_sha256': dig, 'reference_sha256': ref, 'note': 'a Polyglot constant differs from the value at the pinned commit'})
        print('VIOLATION property=C18 replay=%s' % p, flush=True)
        print('  the table of 781 Polyglot constants changed (sha256 %s, reference %s)' % (dig, ref), flush=True)
        return 1
    return rc
