"""Shared builder for the one-step make/unmake checks C02, C03, C04 (harness/make.c)."""
import re, os
from pipeline import Query, Broken, VERIF
import layout, material, report

TUS = ['position', 'zobrist_hash', 'types']
ENTRIES = ['_ZN6engine7HashKey4initERKNS_8PositionE', '_ZN6engine8Position7do_moveEj', '_ZN6engine8Position9undo_moveEjj', '_ZN6engine8Position12do_null_moveEv', '_ZN6engine8Position14undo_null_moveEj']
GLOBALS = ['_ZN6engine13CASTLING_HASHE', '_ZN6engine14ENPASSANT_HASHE', '_ZN6engine9SIDE_HASHE']


def build(ctx, define, mats, null_mats, timeout, hc=3, init_mats=()):
    m = ctx.module(TUS)
    c, h, info = ctx.translate(m, ENTRIES, globals_=GLOBALS, env_tables={'_ZN6engine10PIECE_HASHE': 'env_piece_hash'})
    import linearity
    fm = layout.field_header(ctx, m, [layout.POSITION_FIELDS, layout.HASHKEY_FIELDS], ['position.h'])
    tr = ['@' + f for f in info['translated']]
    viol = linearity.check(m, tr, [g for g in m.globals if 'PIECE_HASHE' in g][0],
                           key_fields=[('%"class.engine::Position"', fm[('POS', '_history')]), ('%"class.engine::Position"', fm[('POS', '_zobrist_hash')])])
    if viol: raise Broken('key code is not syntactically XOR-linear in PIECE_HASH; the indicator-table encoding is not justified: ' + '; '.join(viol[:4]))
    ctx.notes.append('XOR-linearity of the encoded key code in PIECE_HASH checked on the IR (%d functions): ok' % len(tr))
    H = ['#include "make.c"']
    names = []
    for mat in mats:
        for side in (0, 1):
            fn = 'h_make_%s_%s' % (material.name(mat), 'wb'[side])
            H.append('void %s(void) { static const uint32_t mat[] = %s; make_case(mat, %d, %d, %d); }' % (fn, material.cinit(mat), len(mat), side, maxc(mat)))
            names.append((fn, {'material': material.name(mat), 'side_to_move': 'wb'[side], 'squares/rights/ep/clocks/move': 'symbolic', 'op': 'do_move' + ('+undo_move' if define == 'CHECK_C03' else '')}, mat))
    for mat in null_mats:
        for side in (0, 1):
            fn = 'h_null_%s_%s' % (material.name(mat), 'wb'[side])
            H.append('void %s(void) { static const uint32_t mat[] = %s; null_case(mat, %d, %d, %d); }' % (fn, material.cinit(mat), len(mat), side, maxc(mat)))
            names.append((fn, {'material': material.name(mat), 'side_to_move': 'wb'[side], 'op': 'do_null_move' + ('+undo_null_move' if define == 'CHECK_C03' else '')}, mat))
    for mat in init_mats:
        for side in (0, 1):
            fn = 'h_init_%s_%s' % (material.name(mat), 'wb'[side])
            H.append('void %s(void) { static const uint32_t mat[] = %s; init_case(mat, %d, %d); }' % (fn, material.cinit(mat), len(mat), side))
            names.append((fn, {'material': material.name(mat), 'side_to_move': 'wb'[side], 'op': 'HashKey::init (from-scratch key) vs definition'}, mat))
    hp = ctx.path('h_make.c'); open(hp, 'w').write('\n'.join(H) + '\n')
    from concurrent.futures import ThreadPoolExecutor
    with ThreadPoolExecutor(2) as ex:
        f1 = ex.submit(ctx.gotocc, 'mk', [c, hp], [define, 'HC=%d' % hc, 'S_USE_BITBOARD_ORACLE']); f2 = ex.submit(ctx.gotocc, 'mkw', [c, hp], [define, 'HC=%d' % hc, 'WITNESS', 'S_USE_BITBOARD_ORACLE'])
        gb, gbw = f1.result(), f2.result()
    qs, ws = [], []
    for fn, smp, mat in names:
        if ctx.only and not re.search(ctx.only, fn): continue
        n = len(mat)
        us = unwindset(n)
        qs.append(Query(fn, gb, fn, us, timeout=timeout, sample=smp, meta={'mat': mat}))
        ws.append(Query('w_' + fn, gbw, fn, us, timeout=timeout, sample=smp, meta={'of': fn}, expect='witness'))
    return qs, ws


def maxc(mat):
    return max(mat.count(x) for x in set(mat)) + (1 if (1 in mat or 7 in mat) else 0)


def unwindset(n):
    # loops with fixed trip counts in the harness/oracle; engine piece-list scans are bounded by the material size
    return {'pos_build.0': 65, 'pos_build.1': n + 1, 's_king_sq.0': 65, 's_attacked.0': 9, 's_attacked.1': 9, 's_attacked.2': 9, 's_attacked_bb.0': 65, 'sb_fill.0': 8, 's_path_clear.0': 7,
            'zobrist_tables_arbitrary.0': 17, 'zobrist_tables_arbitrary.1': 9,
            'check_ri.0': 65, 'check_ri.1': 14, 'check_ri.2': 7, 'check_ri.3': 9, 'check_ri.4': 9, 'check_ri.5': 14, 'xor_cells.0': 6, 'xor_cells.1': 6, 'only_touched_differ.0': 65, 'only_touched_differ.1': 6, 'make_case.2': 65, 'make_case.3': 65, 'make_case.4': 65, 'make_case.0': 65, 'make_case.1': 65, 'null_case.0': 65, 'null_case.1': 65,
            '_ZN6engine8Position12remove_pieceENS_6SquareE.0': n + 1, '_ZN6engine8Position10move_pieceENS_6SquareES1_.0': n + 1, 'fill7.0': 8}


ASSUME = ['slider_attack<> is not used by these functions; no engine move generator is involved (the move comes from the mailbox reference)',
          'pre-state satisfies the representation invariant RI (board = lists = counts = bitboards; ep/castling key parts as RI prescribes); '
          'piece/pawn/side key parts are arbitrary and only their change is checked (induction step); the base case is HashKey::init (C04 h_init_*) '
          'called by the FEN constructor, whose iostream parsing is not encoded',
          'PIECE_HASH: indicator-table encoding justified by the XOR-linearity check on the IR; CASTLING/ENPASSANT/SIDE tables fully arbitrary',
          'mailbox rules reference rt/chess_spec.h is trusted (cross-checked against the engine by C01); its attack test is used in the bit-parallel formulation s_attacked_bb, which the C07 lemma query proves equal to the mailbox ray walk on every board',
          'half-move clock <= 150 and ply < 100000 in the pre-state (uint8_t wrap at 256 outside the claim); history index fixed (boundary is C10)']


def replay(mode):
    def f(ctx, r):
        import fen as F
        ce = r.ce()
        fen = F.from_ce(ce)
        isnull = r.q.name.startswith('h_null')
        mv = ce.get('ce_mv', 0)
        text = '%s: %s; position "%s" move %s' % (r.q.name, '; '.join(d for _, d in r.failed[:2]), fen, 'null' if isnull else F.move_uci(mv, ce.get('ce_side', 0)))
        if r.q.name.startswith('h_init'):
            exe = ctx.native_bin('make_replay', [os.path.join(VERIF, 'native', 'make_replay.cpp')], NATIVE_TUS)
            out = ctx.sh([exe, 'c04', fen, 'null'], ok=(0, 1, 3))
        else:
            exe = ctx.native_bin('make_replay', [os.path.join(VERIF, 'native', 'make_replay.cpp')], NATIVE_TUS)
            out = ctx.sh([exe, mode, fen, 'null' if isnull else str(mv)], ok=(0, 1, 3))
        path = report.save_replay(ctx, r.q.name, {'harness': r.q.name, 'fen': fen, 'move': None if isnull else F.move_uci(mv, ce.get('ce_side', 0)), 'encoded_move': mv,
                                                   'failed': [d for _, d in r.failed], 'native_output': out.strip().split('\n'),
                                                   'replay_cmd': 'make_replay %s "%s" %s' % (mode, fen, 'null' if isnull else mv)})
        conf = 'REPRODUCED' in out and 'NOT-REPRODUCED' not in out
        key = classify(r, out)
        return {'confirmed': conf, 'key': key, 'text': text + ' | native: ' + ' / '.join(l for l in out.split('\n') if l.startswith('DIFF'))[:300], 'path': path}
    return f


def classify(r, out):
    d = ' '.join(x for _, x in r.failed)
    if 'half-move clock' in d and 'DIFF half-move clock' in out and not any(l.startswith('DIFF') and 'half-move' not in l for l in out.split('\n')): return 'halfmove-clock'
    return re.sub(r'[^a-z0-9]+', '-', (r.failed[0][1] if r.failed else 'unknown').lower())[:60]

NATIVE_TUS = ['position', 'movegen', 'move_bitboards', 'bithacks', 'types', 'zobrist_hash', 'bitbase', 'endgame']
