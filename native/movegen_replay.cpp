// native replay for C01: generated move list of the real engine vs the mailbox rules reference on one FEN
#include "position.h"
#include "movegen.h"
#include "endgame.h"
#include "zobrist_hash.h"
extern "C" {
#include "chess_spec.h"
}
#include <cstdio>
#include <cstring>
#include <set>
using namespace engine;
int main(int argc, char** argv) {
    if (argc < 2) return 2;
    move_bitboards::init(); zobrist::init(); bitbase::init(); endgame::init();
    Position pos(argv[1]);
    SBoard S; for (int i = 0; i < 64; i++) S.b[i] = (uint8_t)pos.piece_at(Square(i));
    S.side = pos.color(); S.cr = pos.castling_rights(); S.ep = pos.enpassant_square() == NO_SQUARE ? 64 : pos.enpassant_square();
    Move list[MAX_MOVES]; int n = generate_moves(pos, pos.color(), list) - list;
    std::multiset<Move> gen(list, list + n); std::set<Move> legal;
    for (int c = 0; c < 3; c++) for (int f = 0; f < 64; f++) for (int t = 0; t < 64; t++) for (int p = 0; p < 6; p++) {
        if (c && (f || t || p)) continue; if (p == 1) continue;
        SMove m; m.castle = c; m.from = f; m.to = t; m.promo = p;
        if (s_legal(&S, m)) legal.insert(c ? (Move)c << 15 : (Move)(p << 12 | t << 6 | f));
    }
    int bad = 0;
    for (Move m : legal) if (!gen.count(m)) {
        bool ep = !((m >> 15) & 3) && ((m >> 6) & 63) == S.ep && S_KIND(S.b[m & 63]) == 1;
        printf("MISSING %s%s\n", pos.uci(m).c_str(), ep ? " (en passant; pinned-ep?)" : ""); bad = 1; }
    for (Move m : gen) if (!legal.count(m)) { printf("ILLEGAL %s (encoded %u)\n", pos.uci(m).c_str(), m); bad = 1; }
    for (Move m : legal) if (gen.count(m) > 1) { printf("DUPLICATE %s\n", pos.uci(m).c_str()); bad = 1; }
    printf("generated=%d legal=%zu\n", n, legal.size());
    printf(bad ? "REPRODUCED\n" : "NOT-REPRODUCED\n");
    return bad;
}
