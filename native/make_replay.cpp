// Native replay of make/unmake counterexamples (C02, C03, C04, C15) against the g++-built real engine.
// usage: make_replay <mode> "<fen>" <encoded move | null>
// Expected values come from the independent mailbox reference (rt/chess_spec.h), not from the engine.
#include <map>
#include <sstream>
#include <string>
#include <vector>
#define private public     /* the C03 replay reorders piece lists between a move and its take-back */
#include "position.h"
#undef private
#include "movegen.h"
#include "endgame.h"
#include "zobrist_hash.h"
extern "C" {
#include "chess_spec.h"
}
#include <cstdio>
#include <cstdlib>
#include <cstring>
#include <string>
using namespace engine;

static void to_sboard(const Position& p, SBoard* s) {
    for (int i = 0; i < 64; i++) s->b[i] = (uint8_t)p.piece_at(Square(i));
    s->side = p.color(); s->cr = p.castling_rights(); s->ep = p.enpassant_square() == NO_SQUARE ? 64 : p.enpassant_square();
}
static int differs(const Position& p, const SBoard* t, const char* tag) {
    int d = 0;
    for (int i = 0; i < 64; i++) if ((uint8_t)p.piece_at(Square(i)) != t->b[i]) { printf("DIFF %s square %d engine %d expected %d\n", tag, i, (int)p.piece_at(Square(i)), t->b[i]); d = 1; }
    if ((uint8_t)p.color() != t->side) { printf("DIFF %s side\n", tag); d = 1; }
    if ((uint8_t)p.castling_rights() != t->cr) { printf("DIFF %s rights engine %d expected %d\n", tag, (int)p.castling_rights(), t->cr); d = 1; }
    unsigned ep = p.enpassant_square() == NO_SQUARE ? 64 : p.enpassant_square();
    if (ep != t->ep) { printf("DIFF %s ep engine %u expected %u\n", tag, ep, t->ep); d = 1; }
    return d;
}
int main(int argc, char** argv) {
    if (argc < 4) return 2;
    move_bitboards::init(); zobrist::init(); bitbase::init(); endgame::init();
    std::string mode = argv[1];
    Position pos(argv[2]);
    bool isnull = !strcmp(argv[3], "null");
    Move mv = isnull ? 0 : (Move)strtoul(argv[3], 0, 10);
    SBoard S; to_sboard(pos, &S);
    SMove m; m.castle = (mv >> 15) & 3; m.from = mv & 63; m.to = (mv >> 6) & 63; m.promo = (mv >> 12) & 7;
    if (!isnull && !s_legal(&S, m)) { printf("NOT-LEGAL move %u in %s\n", mv, argv[2]); return 3; }
    SBoard T;
    if (isnull) { T = S; T.side = 1 - S.side; T.ep = 64; } else s_apply(&S, m, &T);
    std::string fen0 = pos.fen(); uint64_t key0 = pos.hash(), pkey0 = pos.pawn_hash();
    uint32_t hm0 = pos.half_moves(), ply0 = pos.ply_count();
    int bad = 0;
    MoveInfo mi = isnull ? pos.do_null_move() : pos.do_move(mv);
    if (mode == "c02") {
        bad |= differs(pos, &T, "after-move");
        if (!isnull) {
            int pawn = !m.castle && S_KIND(S.b[m.from]) == 1, capt = !m.castle && S.b[m.to] != 0;
            uint32_t want = (pawn || capt) ? 0 : hm0 + 1;
            if (pos.half_moves() != want) { printf("DIFF half-move clock engine %u expected %u\n", pos.half_moves(), want); bad = 1; }
            if (pos.ply_count() != ply0 + 1) { printf("DIFF ply engine %u expected %u\n", pos.ply_count(), ply0 + 1); bad = 1; }
        }
        printf("FEN-AFTER %s\n", pos.fen().c_str());
    } else if (mode == "c04") {
        Position fresh(pos.fen());
        if (fresh.hash() != pos.hash()) { printf("DIFF key incremental %llx scratch %llx\n", (unsigned long long)pos.hash(), (unsigned long long)fresh.hash()); bad = 1; }
        if (fresh.pawn_hash() != pos.pawn_hash()) { printf("DIFF pawn key incremental %llx scratch %llx\n", (unsigned long long)pos.pawn_hash(), (unsigned long long)fresh.pawn_hash()); bad = 1; }
        if (isnull) pos.undo_null_move(mi); else pos.undo_move(mv, mi);
        if (pos.hash() != key0 || pos.pawn_hash() != pkey0) { printf("DIFF key after undo\n"); bad = 1; }
    } else if (mode == "c03") {
        // the take-back is tried from every order of the piece lists that a nested make/unmake pair can leave behind
        // (no reordering, and each transposition of two entries of one list)
        std::vector<Position> variants; variants.push_back(pos);
        if (!isnull) for (int pc = 1; pc < 13; pc++) for (int i = 0; i < pos._piece_count[pc]; i++) for (int j = i + 1; j < pos._piece_count[pc]; j++) {
            Position q = pos; std::swap(q._piece_position[pc][i], q._piece_position[pc][j]); variants.push_back(q);
        }
        int vi = 0;
        for (Position& q : variants) {
            int b1 = 0;
            if (isnull) q.undo_null_move(mi); else q.undo_move(mv, mi);
            b1 |= differs(q, &S, "after-undo");
            if (q.fen() != fen0) { printf("DIFF fen after undo '%s' vs '%s'\n", q.fen().c_str(), fen0.c_str()); b1 = 1; }
            if (q.hash() != key0 || q.pawn_hash() != pkey0) { printf("DIFF key after undo\n"); b1 = 1; }
            Position fresh(fen0);
            Move a[MAX_MOVES], b[MAX_MOVES];
            int na = generate_moves(q, q.color(), a) - a, nb = generate_moves(fresh, fresh.color(), b) - b;
            uint64_t sa = 0, sb = 0; for (int i = 0; i < na; i++) sa += a[i] * 2654435761u; for (int i = 0; i < nb; i++) sb += b[i] * 2654435761u;
            if (na != nb || sa != sb) { printf("DIFF generated move set after undo (piece lists no longer describe the board)\n"); b1 = 1; }
            for (int pc = 1; pc < 13; pc++) for (int i = 0; i < q._piece_count[pc]; i++) if (q._board[q._piece_position[pc][i]] != pc) { printf("DIFF piece list of %d holds square %d which has piece %d\n", pc, (int)q._piece_position[pc][i], (int)q._board[q._piece_position[pc][i]]); b1 = 1; }
            if (b1) { printf("(list order variant %d of %zu)\n", vi, variants.size()); bad = 1; break; }
            vi++;
        }
    } else if (mode == "c15") {
        Position q(argv[2]);
        bool cap = q.move_is_capture(mv), quiet = q.move_is_quiet(mv), chk = q.move_gives_check(mv);
        int cnt0 = 0, cnt1 = 0; for (int i = 0; i < 64; i++) { cnt0 += S.b[i] != 0; cnt1 += T.b[i] != 0; }
        bool wcap = cnt1 < cnt0, wquiet = !wcap && m.promo == 0, wchk = s_attacked(&T, s_king_sq(&T, T.side), S.side);
        if (cap != wcap) { printf("DIFF move_is_capture engine %d expected %d\n", cap, wcap); bad = 1; }
        if (quiet != wquiet) { printf("DIFF move_is_quiet engine %d expected %d\n", quiet, wquiet); bad = 1; }
        if (chk != wchk) { printf("DIFF move_gives_check engine %d expected %d\n", chk, wchk); bad = 1; }
    } else return 2;
    printf(bad ? "REPRODUCED\n" : "NOT-REPRODUCED\n");
    return bad ? 1 : 0;
}
