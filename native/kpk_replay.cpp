// native replay for C12: engine verdict (real evaluator, both colours) vs the independent retrograde truth for one
// position and its successors
#include "position.h"
#include "endgame.h"
#include "movegen.h"
#include "zobrist_hash.h"
extern "C" {
#include "kpk_rules.h"
}
#include <cstdio>
#include <cstdlib>
#include <vector>
#include <string>
using namespace engine;
static std::vector<uint8_t> D(KP_NIDX, 255);
static void solve() {
    bool changed = true;
    while (changed) { changed = false;
        for (int stm = 0; stm < 2; stm++) for (int wp = 8; wp < 56; wp++) for (int wk = 0; wk < 64; wk++) for (int bk = 0; bk < 64; bk++) {
            KP p = {(uint8_t)stm, (uint8_t)wk, (uint8_t)wp, (uint8_t)bk}; if (!kp_legal(p)) continue;
            uint32_t idx = KP_IDX(stm, wk, wp, bk); int best = 255;
            if (stm == 0) {
                if (kp_promo_wins(p)) best = 1;
                for (int d = 0; d < 8; d++) { int r = (wk >> 3) + KP_DR[d], f = (wk & 7) + KP_DF[d]; if (r < 0 || r > 7 || f < 0 || f > 7) continue;
                    int t = r * 8 + f; if (t == wp || kp_dist(t, bk) <= 1) continue; int v = D[KP_IDX(1, t, wp, bk)]; if (v != 255 && v + 1 < best) best = v + 1; }
                if ((wp >> 3) < 6) { int t = wp + 8; if (t != wk && t != bk) { int v = D[KP_IDX(1, wk, t, bk)]; if (v != 255 && v + 1 < best) best = v + 1;
                    if ((wp >> 3) == 1 && t + 8 != wk && t + 8 != bk) { int v2 = D[KP_IDX(1, wk, t + 8, bk)]; if (v2 != 255 && v2 + 1 < best) best = v2 + 1; } } }
            } else {
                int n = 0, worst = 0; bool esc = false;
                for (int d = 0; d < 8; d++) { int r = (bk >> 3) + KP_DR[d], f = (bk & 7) + KP_DF[d]; if (r < 0 || r > 7 || f < 0 || f > 7) continue;
                    int t = r * 8 + f; if (kp_dist(t, wk) <= 1) continue; if (t != wp && kp_pawn_attacks(wp, t)) continue; n++;
                    if (t == wp) { esc = true; continue; } int v = D[KP_IDX(0, wk, wp, t)]; if (v == 255) esc = true; else if (v > worst) worst = v; }
                if (n == 0) best = kp_pawn_attacks(wp, bk) ? 0 : 255; else best = esc ? 255 : (worst + 1 > 254 ? 254 : worst + 1);
            }
            if (best < D[idx]) { D[idx] = (uint8_t)best; changed = true; }
        } }
}
static std::string sqs(int s) { std::string r; r += (char)('a' + (s & 7)); r += (char)('1' + (s >> 3)); return r; }
static std::string fen(int stm, int wk, int wp, int bk, bool mirror) {
    char b[64]; for (int i = 0; i < 64; i++) b[i] = 0;
    if (!mirror) { b[wk] = 'K'; b[wp] = 'P'; b[bk] = 'k'; } else { b[wk ^ 56] = 'k'; b[wp ^ 56] = 'p'; b[bk ^ 56] = 'K'; }
    std::string f;
    for (int r = 7; r >= 0; r--) { int e = 0; for (int c = 0; c < 8; c++) { char x = b[r * 8 + c]; if (!x) e++; else { if (e) f += (char)('0' + e); e = 0; f += x; } } if (e) f += (char)('0' + e); if (r) f += '/'; }
    f += (stm ^ (mirror ? 1 : 0)) ? " b - - 0 1" : " w - - 0 1";
    return f;
}
static int bad = 0;
static void cmp(int stm, int wk, int wp, int bk) {
    KP p = {(uint8_t)stm, (uint8_t)wk, (uint8_t)wp, (uint8_t)bk}; if (!kp_legal(p)) return;
    bool truth = D[KP_IDX(stm, wk, wp, bk)] != 255;
    for (int mirror = 0; mirror < 2; mirror++) {
        std::string f = fen(stm, wk, wp, bk, mirror);
        Position pos(f);
        Value v = endgame::score(pos);
        bool stmStrong = (pos.color() == (mirror ? BLACK : WHITE));
        Value strong = stmStrong ? v : -v;
        bool eng = strong >= 400000;
        if (eng != truth) { printf("MISMATCH %s engine=%s truth=%s (depth %d)\n", f.c_str(), eng ? "win" : "draw", truth ? "win" : "draw", D[KP_IDX(stm, wk, wp, bk)]); bad = 1; }
    }
}
int main(int argc, char** argv) {
    if (argc < 5) return 2;
    move_bitboards::init(); zobrist::init(); bitbase::init(); endgame::init();
    solve();
    int stm = atoi(argv[1]), wk = atoi(argv[2]), wp = atoi(argv[3]), bk = atoi(argv[4]);
    cmp(stm, wk, wp, bk);
    // successors (the certificate condition that failed may be violated by a neighbour)
    if (stm == 0) { for (int d = 0; d < 8; d++) { int r = (wk >> 3) + KP_DR[d], f = (wk & 7) + KP_DF[d]; if (r < 0 || r > 7 || f < 0 || f > 7) continue; cmp(1, r * 8 + f, wp, bk); }
        if (wp + 8 < 56) cmp(1, wk, wp + 8, bk); if ((wp >> 3) == 1) cmp(1, wk, wp + 16, bk); }
    else for (int d = 0; d < 8; d++) { int r = (bk >> 3) + KP_DR[d], f = (bk & 7) + KP_DF[d]; if (r < 0 || r > 7 || f < 0 || f > 7) continue; cmp(0, wk, wp, r * 8 + f); }
    printf(bad ? "REPRODUCED\n" : "NOT-REPRODUCED\n");
    return bad;
}
