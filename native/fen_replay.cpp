// native replay for the C16 FEN round-trip harness:
//   fen_replay <side> <rights> <ep|64> <halfmove> <ply> <piece:square>...
// builds the position WITHOUT the FEN reader (pieces added one by one on an empty board, members set directly), prints its
// FEN, loads that text with the real constructor and compares placement, side, rights, en-passant square, clocks, key and
// the re-printed FEN.
#include <cstdio>
#include <cstdlib>
#include <map>
#include <sstream>
#include <string>
#include <vector>
#define private public
#define protected public
#include "position.h"
#undef private
#undef protected
#include "movegen.h"
#include "endgame.h"
#include "zobrist_hash.h"
using namespace engine;
int main(int argc, char** argv) {
    if (argc < 7) return 2;
    move_bitboards::init(); zobrist::init(); bitbase::init(); endgame::init();
    Position a("8/8/8/8/8/8/8/8 w - - 0 1");
    for (int i = 6; i < argc; i++) { int pc, sq; if (sscanf(argv[i], "%d:%d", &pc, &sq) == 2) a.add_piece(Piece(pc), Square(sq)); }
    a._current_side = Color(atoi(argv[1])); a._castling_rights = Castling(atoi(argv[2])); a.set_enpassant_square(Square(atoi(argv[3])));
    a._half_move_counter = (uint8_t)atoi(argv[4]); a._ply_counter = atoi(argv[5]);
    a._zobrist_hash = HashKey(); a._zobrist_hash.init(a);     // init() XORs into the members: start from fresh keys
    std::string t = a.fen();
    Position b(t);
    std::string t2 = b.fen();
    bool bad = false;
    for (int s = 0; s < 64; s++) if (a._board[s] != b._board[s]) bad = true;
    if (a._current_side != b._current_side || a._castling_rights != b._castling_rights || a._enpassant_square != b._enpassant_square) bad = true;
    if (a._half_move_counter != b._half_move_counter || a._ply_counter != b._ply_counter) bad = true;
    if (a._zobrist_hash.get_key() != b._zobrist_hash.get_key()) bad = true;
    if (t != t2) bad = true;
    printf("printed  \"%s\"\nreloaded \"%s\"\nrights %d -> %d, ep %d -> %d, clocks %d/%d -> %d/%d, key equal %d\n", t.c_str(), t2.c_str(), (int)a._castling_rights, (int)b._castling_rights,
           (int)a._enpassant_square, (int)b._enpassant_square, (int)a._half_move_counter, (int)a._ply_counter, (int)b._half_move_counter, (int)b._ply_counter, (int)(a._zobrist_hash.get_key() == b._zobrist_hash.get_key()));
    printf(bad ? "REPRODUCED\n" : "NOT-REPRODUCED\n");
    return bad;
}
