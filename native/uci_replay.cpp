// native replay for the C16 move-text harness: uci_replay <side> <piece> <square of the moving piece> <encoded move> [castling rights]
// puts the piece on an otherwise empty board (uci/parse_uci read only the side to move and the piece on the from-square),
// prints the move, parses the text back and compares; also checks the text against the long-algebraic format.
#include <cstdio>
#include <cstdlib>
#include <map>
#include <sstream>
#include <stdexcept>
#include <string>
#include <vector>
#define private public
#include "position.h"
#undef private
#include "movegen.h"
#include "endgame.h"
#include "zobrist_hash.h"
using namespace engine;
int main(int argc, char** argv) {
    if (argc < 5) return 2;
    move_bitboards::init(); zobrist::init(); bitbase::init(); endgame::init();
    int side = atoi(argv[1]), pc = atoi(argv[2]), sq = atoi(argv[3]); Move mv = (Move)strtoul(argv[4], 0, 10);
    Position a("8/8/8/8/8/8/8/8 w - - 0 1");
    a.add_piece(Piece(pc), Square(sq)); a._current_side = Color(side);
    if (argc > 5) a._castling_rights = Castling(atoi(argv[5]));
    std::string t = a.uci(mv);
    unsigned cs = (mv >> 15) & 3, from = mv & 63, to = (mv >> 6) & 63, pr = (mv >> 12) & 7;
    if (cs) { from = side ? 60 : 4; to = side ? (cs == 1 ? 62 : 58) : (cs == 1 ? 6 : 2); pr = 0; }
    std::string want; want += char('a' + (from & 7)); want += char('1' + (from >> 3)); want += char('a' + (to & 7)); want += char('1' + (to >> 3)); if (pr) want += " .nbrq"[pr];
    bool bad = t != want; Move mv2 = 0; bool threw = false;
    try { mv2 = a.parse_uci(t); } catch (const std::exception& e) { threw = true; }
    if (threw || mv2 != mv) bad = true;
    printf("move %u printed \"%s\" (expected \"%s\") parsed back %u%s\n", mv, t.c_str(), want.c_str(), mv2, threw ? " (parse_uci threw)" : "");
    printf(bad ? "REPRODUCED\n" : "NOT-REPRODUCED\n");
    return bad;
}
