// Independent retrograde solver for KPK (witness generator for the C12 certificate): depth-to-win in plies for
// every legal position with White owning the pawn (255 = White cannot force a win).  Untrusted: the CBMC queries
// check the certificate conditions against the rules for every position.
extern "C" {
#include "kpk_rules.h"
}
#include <cstdio>
#include <cstdlib>
#include <vector>
static std::vector<uint8_t> D(KP_NIDX, 255);
static uint8_t get(KP p) { return D[KP_IDX(p.stm, p.wk, p.wp, p.bk)]; }
int main(int argc, char** argv) {
    const char* out = argc > 1 ? argv[1] : "kpk_d.init";
    bool changed = true; int iter = 0;
    while (changed) {
        changed = false; iter++;
        for (int stm = 0; stm < 2; stm++) for (int wp = 8; wp < 56; wp++) for (int wk = 0; wk < 64; wk++) for (int bk = 0; bk < 64; bk++) {
            KP p = {(uint8_t)stm, (uint8_t)wk, (uint8_t)wp, (uint8_t)bk};
            if (!kp_legal(p)) continue;
            uint32_t idx = KP_IDX(stm, wk, wp, bk);
            int best = 255;
            if (stm == 0) {
                if (kp_promo_wins(p)) best = 1;
                for (int d = 0; d < 8; d++) {
                    int r = (wk >> 3) + KP_DR[d], f = (wk & 7) + KP_DF[d]; if (r < 0 || r > 7 || f < 0 || f > 7) continue;
                    int t = r * 8 + f; if (t == wp || kp_dist(t, bk) <= 1) continue;
                    KP s = {1, (uint8_t)t, (uint8_t)wp, (uint8_t)bk}; int v = get(s); if (v != 255 && v + 1 < best) best = v + 1;
                }
                if ((wp >> 3) < 6) {
                    int t = wp + 8;
                    if (t != wk && t != bk) {
                        KP s = {1, (uint8_t)wk, (uint8_t)t, (uint8_t)bk}; int v = get(s); if (v != 255 && v + 1 < best) best = v + 1;
                        if ((wp >> 3) == 1 && t + 8 != wk && t + 8 != bk) { KP s2 = {1, (uint8_t)wk, (uint8_t)(t + 8), (uint8_t)bk}; int v2 = get(s2); if (v2 != 255 && v2 + 1 < best) best = v2 + 1; }
                    }
                }
            } else {
                int n = 0, worst = 0; bool escape = false;
                for (int d = 0; d < 8; d++) {
                    int r = (bk >> 3) + KP_DR[d], f = (bk & 7) + KP_DF[d]; if (r < 0 || r > 7 || f < 0 || f > 7) continue;
                    int t = r * 8 + f; if (kp_dist(t, wk) <= 1) continue;
                    if (t != wp && kp_pawn_attacks(wp, t)) continue;
                    n++;
                    if (t == wp) { escape = true; continue; }
                    KP s = {0, (uint8_t)wk, (uint8_t)wp, (uint8_t)t}; int v = get(s); if (v == 255) escape = true; else if (v > worst) worst = v;
                }
                if (n == 0) best = kp_pawn_attacks(wp, bk) ? 0 : 255;      /* checkmate / stalemate */
                else best = escape ? 255 : (worst + 1 > 254 ? 254 : worst + 1);
            }
            if (best < D[idx]) { D[idx] = (uint8_t)best; changed = true; }
        }
    }
    FILE* f = fopen(out, "w"); if (!f) return 2;
    /* layout KPK_D[stm][wp - 8][bk * 64 + wk] */
    fprintf(f, "{");
    for (int stm = 0; stm < 2; stm++) {
        fprintf(f, "%s{", stm ? "," : "");
        for (int wp = 8; wp < 56; wp++) {
            fprintf(f, "%s{", wp > 8 ? "," : "");
            for (int bk = 0; bk < 64; bk++) for (int wk = 0; wk < 64; wk++) fprintf(f, "%s%u", (bk | wk) ? "," : "", D[KP_IDX(stm, wk, wp, bk)]);
            fprintf(f, "}");
        }
        fprintf(f, "}");
    }
    fprintf(f, "}\n"); fclose(f);
    long won = 0, legal = 0; int maxd = 0;
    for (int stm = 0; stm < 2; stm++) for (int wp = 8; wp < 56; wp++) for (int wk = 0; wk < 64; wk++) for (int bk = 0; bk < 64; bk++) {
        KP p = {(uint8_t)stm, (uint8_t)wk, (uint8_t)wp, (uint8_t)bk}; if (!kp_legal(p)) continue; legal++;
        int v = get(p); if (v != 255) { won++; if (v > maxd) maxd = v; }
    }
    printf("iterations=%d legal=%ld won=%ld maxdepth=%d\n", iter, legal, won, maxd);
    return 0;
}
