// native replay for C07 position predicates
#include "position.h"
#include "movegen.h"
#include "endgame.h"
#include "zobrist_hash.h"
extern "C" {
#include "chess_spec.h"
}
#include <cstdio>
using namespace engine;
int main(int argc, char** argv) {
    if (argc < 2) return 2;
    move_bitboards::init(); zobrist::init(); bitbase::init(); endgame::init();
    Position pos(argv[1]);
    SBoard S; for (int i = 0; i < 64; i++) S.b[i] = (uint8_t)pos.piece_at(Square(i));
    S.side = pos.color(); S.cr = pos.castling_rights(); S.ep = pos.enpassant_square() == NO_SQUARE ? 64 : pos.enpassant_square();
    int bad = 0;
    for (int c = 0; c < 2; c++) { bool e = pos.is_in_check(Color(c)), w = s_attacked(&S, s_king_sq(&S, c), 1 - c); if (e != w) { printf("DIFF is_in_check(%d) engine %d rules %d\n", c, e, w); bad = 1; } }
    int legal = 0;
    for (int c = 0; c < 3; c++) for (int f = 0; f < 64; f++) for (int t = 0; t < 64; t++) for (int p = 0; p < 6; p++) { if (c && (f || t || p)) continue; if (p == 1) continue; SMove m; m.castle = c; m.from = f; m.to = t; m.promo = p; if (s_legal(&S, m)) legal++; }
    bool inchk = s_attacked(&S, s_king_sq(&S, S.side), 1 - S.side);
    if (pos.is_checkmate() != (legal == 0 && inchk)) { printf("DIFF is_checkmate engine %d rules %d\n", pos.is_checkmate(), legal == 0 && inchk); bad = 1; }
    if (pos.is_stalemate() != (legal == 0 && !inchk)) { printf("DIFF is_stalemate engine %d rules %d\n", pos.is_stalemate(), legal == 0 && !inchk); bad = 1; }
    printf(bad ? "REPRODUCED\n" : "NOT-REPRODUCED\n");
    return bad;
}
