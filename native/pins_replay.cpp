// native replay for the C10 pin-table harness (build with -fsanitize=address): generates moves in legal positions whose
// side to move has 2, 4, 5 and 8 absolutely pinned pieces; ASan reports a global-buffer-overflow when PINS is too small
#include "position.h"
#include "movegen.h"
#include "endgame.h"
#include "zobrist_hash.h"
#include <cstdio>
using namespace engine;
int main() {
    move_bitboards::init(); zobrist::init(); bitbase::init(); endgame::init();
    const char* fens[] = {"4k3/4r3/8/b7/8/2N5/4B3/4K3 w - - 0 1", "k2r3b/q7/8/2BNP3/3KN2r/8/8/8 w - - 0 1", "k2r3b/q7/8/2BNP3/3KN2r/4R3/8/6q1 w - - 0 1",
                          "k2r3b/q7/8/2BNP3/r1PKN2r/2PBR3/8/q2r2q1 w - - 0 1", "K2R3B/Q7/8/2bnp3/R1pkn2R/2pbr3/8/Q2R2Q1 b - - 0 1"};
    Move list[256];
    for (const char* f : fens) { Position p(f); Move* e = generate_moves(p, p.color(), list); printf("%s: %d moves\n", f, (int)(e - list)); }
    printf("NOT-REPRODUCED\n");
    return 0;
}
