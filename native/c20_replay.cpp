#include "time_manager.h"
#include <cstdio>
#include <cstdlib>
using namespace engine;
int main(int argc, char** argv) {
    if (argc < 7) return 2;
    int t1 = atoi(argv[1]), t2 = atoi(argv[2]), inc = atoi(argv[3]), mtg = atoi(argv[4]), ply = atoi(argv[5]), side = atoi(argv[6]);
    Limits a, b;
    a.timeleft[side] = t1; a.timeinc[side] = inc; a.movestogo = mtg;
    b.timeleft[side] = t2; b.timeinc[side] = inc; b.movestogo = mtg;
    long r1 = TimeManager::calculateTime(a, Color(side), ply), r2 = TimeManager::calculateTime(b, Color(side), ply);
    bool bad = r1 < 0 || r2 < 0 || 10 * r1 > 7L * t1 || 10 * r2 > 7L * t2 || r1 > r2;
    printf("r1=%ld r2=%ld %s\n", r1, r2, bad ? "REPRODUCED" : "NOT-REPRODUCED");
    return bad;
}
