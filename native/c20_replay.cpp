#include "time_manager.h"
#include <cstdio>
#include <cstdlib>
#include <string>
using namespace engine;
static bool bad3(int t1, int t2, int inc, int mtg, int ply, int side, long* o1, long* o2) {
    Limits a, b;
    a.timeleft[side] = t1; a.timeinc[side] = inc; a.movestogo = mtg;
    b.timeleft[side] = t2; b.timeinc[side] = inc; b.movestogo = mtg;
    long r1 = TimeManager::calculateTime(a, Color(side), ply), r2 = TimeManager::calculateTime(b, Color(side), ply);
    *o1 = r1; *o2 = r2;
    return r1 < 0 || r2 < 0 || 10 * r1 > 7L * t1 || 10 * r2 > 7L * t2 || r1 > r2;
}
int main(int argc, char** argv) {
    if (argc >= 8 && std::string(argv[1]) == "scan") {
        // neighbourhood scan around a contract-level counterexample: same increment/movestogo/ply, many remaining times
        int inc = atoi(argv[4]), mtg = atoi(argv[5]), ply = atoi(argv[6]), side = atoi(argv[7]); long r1, r2;
        for (int t = 0; t <= 86400000; t = t < 2000 ? t + 1 : t + t / 97 + 1) {
            int t2 = t + (t % 7) + 1; if (t2 > 86400000) t2 = 86400000;
            if (bad3(t, t2, inc, mtg, ply, side, &r1, &r2)) { printf("scan: t1=%d t2=%d r1=%ld r2=%ld REPRODUCED\n", t, t2, r1, r2); return 1; }
        }
        printf("scan: NOT-REPRODUCED\n"); return 0;
    }
    if (argc < 7) return 2;
    int t1 = atoi(argv[1]), t2 = atoi(argv[2]), inc = atoi(argv[3]), mtg = atoi(argv[4]), ply = atoi(argv[5]), side = atoi(argv[6]);
    Limits a, b;
    a.timeleft[side] = t1; a.timeinc[side] = inc; a.movestogo = mtg;
    b.timeleft[side] = t2; b.timeinc[side] = inc; b.movestogo = mtg;
    long r1 = TimeManager::calculateTime(a, Color(side), ply), r2 = TimeManager::calculateTime(b, Color(side), ply);
    bool bad = r1 < 0 || r2 < 0 || 10 * r1 > 7L * t1 || 10 * r2 > 7L * t2 || r1 > r2;
    printf("r1=%ld r2=%ld %s\n", r1, r2, bad ? "REPRODUCED" : "NOT-REPRODUCED");
    return bad;
}
