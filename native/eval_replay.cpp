// native replay for evaluation counterexamples: eval_replay sym "<fen>"  -> compares score(P) with score(mirror(P))
#include "position.h"
#include "movegen.h"
#include "endgame.h"
#include "score.h"
#include "zobrist_hash.h"
#include <cstdio>
#include <string>
#include <sstream>
#include <vector>
using namespace engine;
static std::string mirror_fen(const std::string& fen) {
    std::istringstream ss(fen); std::string board, side, cr, ep, hm, fm; ss >> board >> side >> cr >> ep >> hm >> fm;
    std::vector<std::string> rows; std::string cur;
    for (char c : board) { if (c == '/') { rows.push_back(cur); cur.clear(); } else cur += c; } rows.push_back(cur);
    std::string nb;
    for (int i = (int)rows.size() - 1; i >= 0; --i) { for (char c : rows[i]) nb += isalpha(c) ? (isupper(c) ? (char)tolower(c) : (char)toupper(c)) : c; if (i) nb += '/'; }
    std::string ncr; for (char c : std::string("KQkq")) { char o = isupper(c) ? (char)tolower(c) : (char)toupper(c); if (cr.find(o) != std::string::npos) ncr += c; } if (ncr.empty()) ncr = "-";
    std::string nep = ep; if (ep != "-") nep[1] = (char)('1' + ('8' - ep[1]));
    return nb + " " + (side == "w" ? "b" : "w") + " " + ncr + " " + nep + " " + hm + " " + fm;
}
int main(int argc, char** argv) {
    if (argc < 3) return 2;
    move_bitboards::init(); zobrist::init(); bitbase::init(); endgame::init();
    std::string mode = argv[1];
    if (mode == "sym") {
        Position a(argv[2]); std::string mf = mirror_fen(argv[2]); Position b(mf);
        PositionScorer s1, s2;
        long va = s1.score(a), vb = s2.score(b);
        printf("score %ld mirror(\"%s\") %ld\n", va, mf.c_str(), vb);
        printf(va != vb ? "REPRODUCED\n" : "NOT-REPRODUCED\n");
        return va != vb;
    }
    return 2;
}
