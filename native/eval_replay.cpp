// native replay for evaluation counterexamples: eval_replay sym "<fen>"  -> compares score(P) with score(mirror(P))
#include "position.h"
#include "movegen.h"
#include "endgame.h"
#include "score.h"
#include "position_bitboards.h"
#include "zobrist_hash.h"
#include <cstdio>
#include <string>
#include <sstream>
#include <vector>
using namespace engine;
static std::string mirror_fen(const std::string& fen) {
    std::istringstream ss(fen); std::string board, side, cr, ep, hm, fm; ss >> board >> side >> cr >> ep >> hm >> fm;
    std::vector<std::string> rows; std::string cur;
    for (char c : board) { if (c == '/') { rows.push_back(cur); cur.clear(); } else cur += c; } rows.push_back(cur);
    std::string nb;
    for (int i = (int)rows.size() - 1; i >= 0; --i) { for (char c : rows[i]) nb += isalpha(c) ? (isupper(c) ? (char)tolower(c) : (char)toupper(c)) : c; if (i) nb += '/'; }
    std::string ncr; for (char c : std::string("KQkq")) { char o = isupper(c) ? (char)tolower(c) : (char)toupper(c); if (cr.find(o) != std::string::npos) ncr += c; } if (ncr.empty()) ncr = "-";
    std::string nep = ep; if (ep != "-") nep[1] = (char)('1' + ('8' - ep[1]));
    return nb + " " + (side == "w" ? "b" : "w") + " " + ncr + " " + nep + " " + hm + " " + fm;
}
int main(int argc, char** argv) {
    if (argc < 3) return 2;
    move_bitboards::init(); zobrist::init(); bitbase::init(); endgame::init();
    std::string mode = argv[1];
    if (mode == "sym") {
        Position a(argv[2]); std::string mf = mirror_fen(argv[2]); Position b(mf);
        PositionScorer s1, s2;
        long va = s1.score(a), vb = s2.score(b);
        printf("score %ld mirror(\"%s\") %ld\n", va, mf.c_str(), vb);
        printf(va != vb ? "REPRODUCED\n" : "NOT-REPRODUCED\n");
        return va != vb;
    }
    if (mode == "terms") {
        // term-level symmetry: outposts of each colour vs the other colour's outposts in the mirrored position, then the full score
        Position a(argv[2]); std::string mf = mirror_fen(argv[2]); Position b(mf);
        auto flip = [](Bitboard x) { return (Bitboard)__builtin_bswap64(x); };
        Bitboard ow = get_outposts<WHITE>(a), obm = get_outposts<BLACK>(b), ob = get_outposts<BLACK>(a), owm = get_outposts<WHITE>(b);
        PositionScorer s1, s2; long va = s1.score(a), vb = s2.score(b);
        printf("outposts W %016lx mirror-B %016lx | B %016lx mirror-W %016lx | score %ld mirror %ld\n", (unsigned long)ow, (unsigned long)flip(obm), (unsigned long)ob, (unsigned long)flip(owm), va, vb);
        bool bad = ow != flip(obm) || ob != flip(owm) || va != vb;
        printf(bad ? "REPRODUCED\n" : "NOT-REPRODUCED\n");
        return bad;
    }
    if (mode == "pure") {
        // purity: evaluate the position with a fresh scorer, and with scorers that evaluated other positions (and were cleared) before
        int bad = 0;
        // the counterexample position plus a small battery of ordinary positions (rook/queen endings, back-rank kings, middlegames)
        const char* targets[] = {argv[2], "6k1/5pp1/7p/8/8/8/5PPP/3R2K1 w - - 0 1", "3r2k1/5ppp/8/8/8/8/5PPP/6K1 b - - 0 1", "r4rk1/ppp2ppp/2n5/3q4/3P4/2N2N2/PP3PPP/R2Q1RK1 w - - 0 1", "8/5pk1/6p1/8/8/1R6/5PPP/6K1 w - - 0 1"};
        for (const char* tf : targets) {
        Position a(tf); PositionScorer* freshp = new PositionScorer(); PositionScorer& fresh = *freshp; long v0 = fresh.score(a);
        const char* warm[] = {"6k1/5pp1/7p/8/8/3Q4/5PPP/6K1 w - - 0 1", "r1bqkbnr/pppp1ppp/2n5/4p3/4P3/5N2/PPPP1PPP/RNBQKB1R w KQkq - 2 3", "3q2k1/5ppp/8/8/8/8/5PPP/3Q2K1 b - - 0 1", "8/2p5/3p4/KP5r/1R3p1k/8/4P1P1/8 w - - 0 1"};
        for (const char* w : warm) { PositionScorer* sp = new PositionScorer(); PositionScorer& s = *sp; Position o(w); s.score(o); long v = s.score(a); s.clear(); long v2 = s.score(a);
            if (v != v0 || v2 != v0) { printf("%s after evaluating \"%s\": %ld (after clear %ld), fresh scorer: %ld\n", tf, w, v, v2, v0); bad = 1; } delete sp; }
        std::string mf = mirror_fen(tf); Position b(mf); static PositionScorer sm; long vm = sm.score(b);
        if (vm != v0) { printf("mirror \"%s\": %ld vs %ld\n", mf.c_str(), vm, v0); bad = 1; }
        if (!(v0 > -639960 && v0 < 639960)) { printf("value %ld outside the non-mate range\n", v0); bad = 1; }
        delete freshp;
        }
        printf(bad ? "REPRODUCED\n" : "NOT-REPRODUCED\n");
        return bad;
    }
    return 2;
}
