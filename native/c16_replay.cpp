#include "types.h"
#include <cstdio>
#include <cstdlib>
#include <string>
using namespace engine;
int main(int argc, char** argv) {
    if (argc < 7) return 2;
    std::string h = argv[1]; unsigned a = atoi(argv[2]), b = atoi(argv[3]), c = atoi(argv[4]), d = atoi(argv[5]), e = atoi(argv[6]);
    bool bad = false;
    if (h == "h_move_roundtrip") { Move m = create_move(Square(a), Square(b)); bad = from(m) != a || to(m) != b || promotion(m) != 0 || castling(m) != 0; }
    else if (h == "h_promotion_roundtrip") { Move m = create_promotion(Square(a), Square(b), PieceKind(c)); bad = from(m) != a || to(m) != b || promotion(m) != c || castling(m) != 0 || m >= (1u << 15); }
    else if (h == "h_castling_roundtrip") { Move m = create_castling(Castling(a)); bad = castling(m) != a || m == 0 || (m & 0x7fff); }
    else if (h == "h_moveinfo_roundtrip") { MoveInfo mi = create_moveinfo(PieceKind(a), Castling(b), Square(c), d, (uint8_t)e);
        bad = captured_piece(mi) != a || last_castling(mi) != b || last_enpassant_square(mi) != c || enpassant(mi) != (bool)d || half_move_counter(mi) != (uint8_t)e; }
    else { printf("unsupported\n"); return 0; }
    printf(bad ? "REPRODUCED\n" : "NOT-REPRODUCED\n");
    return bad;
}
