// native replay for the C19 sampler: writes a book with the given weights for the start position and draws many
// samples with different seeds; reports the empirical frequency of each entry and flags zero-weight picks / gross bias
#include "polyglot.h"
#include "movegen.h"
#include "endgame.h"
#include "zobrist_hash.h"
#include <cstdio>
#include <cstdlib>
#include <vector>
#include <random>
using namespace engine;
int main(int argc, char** argv) {
    if (argc < 3) return 2;
    move_bitboards::init(); zobrist::init(); bitbase::init(); endgame::init();
    Position pos; uint64_t key = PolyglotBook::hash(pos);
    std::vector<int> w; for (int i = 2; i < argc; i++) w.push_back(atoi(argv[i]));
    FILE* f = fopen(argv[1], "wb"); if (!f) return 2;
    // distinct quiet pawn moves a2a3, b2b3, ... as the recorded moves
    for (size_t i = 0; i < w.size(); i++) {
        unsigned char e[16] = {0};
        for (int b = 0; b < 8; b++) e[b] = (unsigned char)(key >> (56 - 8 * b));
        unsigned mv = ((1u << 9) | ((unsigned)i << 6) | (2u << 3) | (unsigned)i);   // from rank 2 file i -> rank 3 file i
        e[8] = mv >> 8; e[9] = mv & 255; e[10] = (w[i] >> 8) & 255; e[11] = w[i] & 255;
        fwrite(e, 1, 16, f);
    }
    fclose(f);
    // deterministic differential replay: for each seed draw the same random value the book draws
    // (std::mt19937(seed) + uniform_int_distribution<unsigned long>), select by the cumulative-weight rule and
    // compare with what the engine's get_random_move returns
    int bad = 0; long mism = 0, tried = 0;
    auto run = [&](const std::vector<int>& ww, long seeds) {
        FILE* g = fopen(argv[1], "wb");
        for (size_t i = 0; i < ww.size(); i++) {
            unsigned char e[16] = {0};
            for (int b = 0; b < 8; b++) e[b] = (unsigned char)(key >> (56 - 8 * b));
            unsigned mv = ((1u << 9) | ((unsigned)i << 6) | (2u << 3) | (unsigned)i);
            e[8] = mv >> 8; e[9] = mv & 255; e[10] = (ww[i] >> 8) & 255; e[11] = ww[i] & 255;
            fwrite(e, 1, 16, g);
        }
        fclose(g);
        long tot = 0; for (int x : ww) tot += x; if (tot <= 0) return;
        // the reader inserts the last record twice on this tree; take the vector the book really holds
        for (long s = 0; s < seeds; s++) {
            size_t seed = (size_t)(s * 7919 + 13);
            PolyglotBook book(argv[1], seed);
            std::mt19937 gen(seed); std::uniform_int_distribution<std::mt19937::result_type> dist;
            unsigned long v = dist(gen);
            // weights as loaded (handles the duplicated-last-record defect of the reader): probe by asking best/contains is not enough,
            // so model both: exact file contents and file contents + duplicated last record
            Move m = book.get_random_move(key, pos); unsigned got = from(m) & 7;
            bool okAny = false;
            for (int dup = 0; dup < 2 && !okAny; dup++) {
                std::vector<int> lw = ww; if (dup) lw.push_back(ww.back());
                long t2 = 0; for (int x : lw) t2 += x;
                long smp = (long)(v % (unsigned long)t2), pre = 0; size_t want = lw.size();
                for (size_t i = 0; i < lw.size(); i++) { if (want == lw.size() && smp < pre + lw[i]) want = i; pre += lw[i]; }
                unsigned wf = (unsigned)(want >= ww.size() ? ww.size() - 1 : want);
                if (wf == got) okAny = true;
            }
            tried++;
            if (!okAny) { if (mism < 3) printf("seed %zu random %lu: engine picked entry %u (weight %d)\n", seed, v, got, got < ww.size() ? ww[got] : -1); mism++; bad = 1; }
        }
    };
    run(w, 3000);
    std::vector<int> small; for (int x : w) small.push_back(x > 3 ? 3 : x);
    run(small, 600);
    printf("seeds tried %ld mismatches %ld (weights as given and clipped to <=3)\n", tried, mism);
    printf(bad ? "REPRODUCED\n" : "NOT-REPRODUCED\n");
    return bad;
}
