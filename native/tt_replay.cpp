// native replay for C05 node counterexamples: poison the real transposition table with an entry for the root position
// (full key match) that carries a move from another position, then run a real search and check bestmove / pv legality
#include "search.h"
#include "movegen.h"
#include "endgame.h"
#include "zobrist_hash.h"
#include <iostream>
#include <sstream>
#include <set>
using namespace engine;
int main(int argc, char** argv) {
    int flag = argc > 1 ? atoi(argv[1]) : 0;
    move_bitboards::init(); zobrist::init(); bitbase::init(); endgame::init();
    static tt::TTable ttable; static PositionScorer scorer;
    Position pos("r1bqkbnr/pppp1ppp/2n5/4p3/4P3/5N2/PPPP1PPP/RNBQKB1R w KQkq - 2 3");
    Move list[MAX_MOVES]; int n = generate_moves(pos, pos.color(), list) - list;
    std::set<std::string> legal; for (int i = 0; i < n; i++) legal.insert(pos.uci(list[i]));
    Move foreign = create_move(SQ_H1, SQ_A8);       // not a legal move here
    ttable.insert(pos.hash(), tt::TTEntry(50, 30, tt::Flag(flag), foreign));
    Limits limits; limits.depth = 3;
    std::ostringstream cap; std::streambuf* old = std::cout.rdbuf(cap.rdbuf());
    { Search search(pos, limits, scorer, ttable); search.go(); }
    std::cout.rdbuf(old);
    std::string out = cap.str(); int bad = 0;
    std::istringstream ss(out); std::string line;
    while (std::getline(ss, line)) {
        size_t p = line.find(" pv ");
        if (line.rfind("info", 0) == 0 && p != std::string::npos) { std::istringstream pv(line.substr(p + 4)); std::string mv; if (pv >> mv && !legal.count(mv)) { printf("ILLEGAL pv head %s\n", mv.c_str()); bad = 1; } }
        if (line.rfind("bestmove", 0) == 0) { std::string mv = line.substr(9); while (!mv.empty() && isspace(mv.back())) mv.pop_back(); if (!legal.count(mv)) { printf("ILLEGAL bestmove %s\n", mv.c_str()); bad = 1; } }
    }
    printf(bad ? "REPRODUCED\n" : "NOT-REPRODUCED\n");
    return bad;
}
