// native replay of a Level A schedule counterexample in which stop() lands while the search thread prints the info line of
// iteration N:  stop_replay <N>
// The interleaving is pinned through std::cout's stream buffer: when the N-th "info depth" line is flushed, Search::stop() is
// executed right there (a store at that point of the search thread's execution is exactly what the UCI thread's store does in
// that schedule).  go() runs in its own thread; REPRODUCED when no bestmove arrives within 3 s of the stop.
#include "endgame.h"
#include "movegen.h"
#include "position.h"
#include "score.h"
#include "search.h"
#include "transposition_table.h"
#include "zobrist_hash.h"
#include <atomic>
#include <chrono>
#include <cstdio>
#include <cstdlib>
#include <memory>
#include <streambuf>
#include <string>
#include <thread>
using namespace engine;
static Search* g_search; static int g_at = 1; static std::atomic<int> n_info{0}, n_best{0}, info_after_stop{0}; static std::atomic<bool> stopped{false};
struct Hook : std::streambuf {
    std::string line;
    int_type overflow(int_type ch) override { if (ch != traits_type::eof()) line.push_back((char)ch); return ch; }
    std::streamsize xsputn(const char* s, std::streamsize n) override { line.append(s, (size_t)n); return n; }
    int sync() override {
        std::string l; l.swap(line);
        size_t p = 0;
        while (p < l.size()) {
            size_t e = l.find('\n', p); if (e == std::string::npos) e = l.size();
            std::string one = l.substr(p, e - p); p = e + 1;
            if (one.rfind("bestmove", 0) == 0) n_best++;
            else if (one.rfind("info depth", 0) == 0) {
                if (stopped) info_after_stop++;
                if (++n_info == g_at && !stopped) { g_search->stop(); stopped = true; }
            }
        }
        return 0;
    }
};
int main(int argc, char** argv) {
    if (argc > 1) g_at = atoi(argv[1]);
    move_bitboards::init(); zobrist::init(); bitbase::init(); endgame::init();
    Hook hook; std::streambuf* old = std::cout.rdbuf(&hook);
    Position position; PositionScorer scorer; auto ttable = std::make_unique<tt::TTable>();
    Limits limits; limits.infinite = true;
    Search search(position, limits, scorer, *ttable); g_search = &search;
    std::thread th([&] { search.go(); });
    auto t0 = std::chrono::steady_clock::now(); bool got = false;
    while (std::chrono::steady_clock::now() - t0 < std::chrono::seconds(20)) {
        if (stopped) { auto ts = std::chrono::steady_clock::now(); while (std::chrono::steady_clock::now() - ts < std::chrono::seconds(3)) { if (n_best > 0) { got = true; break; } std::this_thread::sleep_for(std::chrono::milliseconds(5)); } break; }
        std::this_thread::sleep_for(std::chrono::milliseconds(2));
    }
    int lost = stopped && !got;
    int extra = info_after_stop;
    search.stop(); std::this_thread::sleep_for(std::chrono::milliseconds(50));
    for (int i = 0; i < 200 && n_best == 0; i++) { search.stop(); std::this_thread::sleep_for(std::chrono::milliseconds(20)); }
    th.join();
    std::cout.rdbuf(old);
    printf("stop executed while info line %d was printed: bestmove within 3 s: %s; further iterations reported after the stop: %d\n", g_at, got ? "yes" : "NO", extra);
    printf(lost || extra > 0 ? "REPRODUCED\n" : "NOT-REPRODUCED\n");
    return lost || extra > 0;
}
