// for each material string (e.g. KRkr) build one position with that material and report whether the real endgame::score applies
#include "position.h"
#include "movegen.h"
#include "endgame.h"
#include "zobrist_hash.h"
#include <cstdio>
#include <string>
using namespace engine;
int main(int argc, char** argv) {
    move_bitboards::init(); zobrist::init(); bitbase::init(); endgame::init();
    for (int a = 1; a < argc; a++) {
        std::string ms = argv[a]; char b[64] = {0};
        // kings on e1 / e8, other pieces on ranks 4 and 5 from the a-file
        b[4] = 'K'; b[60] = 'k'; int w = 24, k = 32; bool first = true, firstk = true;
        for (char c : ms) { if (c == 'K' && first) { first = false; continue; } if (c == 'k' && firstk) { firstk = false; continue; } if (isupper(c)) b[w++] = c; else b[k++] = c; }
        std::string f;
        for (int r = 7; r >= 0; r--) { int e = 0; for (int c = 0; c < 8; c++) { char x = b[r * 8 + c]; if (!x) e++; else { if (e) f += (char)('0' + e); e = 0; f += x; } } if (e) f += (char)('0' + e); if (r) f += '/'; }
        Position p(f + " w - - 0 1");
        printf("%s %s\n", ms.c_str(), endgame::score(p) == VALUE_NONE ? "general" : "endgame");
    }
    return 0;
}
