// Runs the engine's own table initialisers natively and writes the resulting tables as C initialisers.
// The tables replace the zero-initialised globals of the translated code, so every solver query is about the
// tables the engine really computes at start-up (from /repo's current sources).
#include "move_bitboards.h"
#include "endgame.h"
#include <cstdio>
#include <cstdlib>
#include <string>
using namespace engine;
namespace engine { namespace bitbase { extern uint32_t BITBASE[]; } }
static std::string dir;
static void d64(const char* name, const uint64_t* p, size_t n) {
    FILE* f = fopen((dir + "/" + name + ".init").c_str(), "w");
    if (!f) { perror("fopen"); exit(2); }
    fprintf(f, "{");
    for (size_t i = 0; i < n; ++i) fprintf(f, "%s%lluULL", i ? "," : "", (unsigned long long)p[i]);
    fprintf(f, "}\n"); fclose(f);
}
static void d32(const char* name, const uint32_t* p, size_t n) {
    FILE* f = fopen((dir + "/" + name + ".init").c_str(), "w");
    if (!f) { perror("fopen"); exit(2); }
    fprintf(f, "{");
    for (size_t i = 0; i < n; ++i) fprintf(f, "%s%uU", i ? "," : "", p[i]);
    fprintf(f, "}\n"); fclose(f);
}
int main(int argc, char** argv) {
    dir = argc > 1 ? argv[1] : ".";
    move_bitboards::init();
    bitbase::init();
    d64("_ZN6engine4RAYSE", &RAYS[0][0], 8 * 64);
    d64("_ZN6engine11KNIGHT_MASKE", KNIGHT_MASK, 64);
    d64("_ZN6engine9KING_MASKE", KING_MASK, 64);
    d64("_ZN6engine11BISHOP_MASKE", BISHOP_MASK, 64);
    d64("_ZN6engine9ROOK_MASKE", ROOK_MASK, 64);
    d64("_ZN6engine5LINESE", &LINES[0][0], 64 * 64);
    d64("_ZN6engine10FULL_LINESE", &FULL_LINES[0][0], 64 * 64);
    d64("_ZN6engine14CASTLING_PATHSE", CASTLING_PATHS, 16);
    d64("_ZN6engine10ROOK_TABLEE", &ROOK_TABLE[0][0], 64 * 4096);
    d64("_ZN6engine12BISHOP_TABLEE", &BISHOP_TABLE[0][0], 64 * 4096);
    d32("_ZN6engine7bitbase7BITBASEE", bitbase::BITBASE, 2 * 24 * 64 * 64 / 32);
    return 0;
}
