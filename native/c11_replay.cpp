// native replay of a C11 counterexample against the g++-built real tables/functions
#include "move_bitboards.h"
#include "bitboard.h"
#include <cstdio>
#include <cstdlib>
#include <cstring>
#include <string>
using namespace engine;
int main(int argc, char** argv) {
    if (argc < 5) return 2;
    move_bitboards::init();
    std::string h = argv[1];
    uint64_t occ = strtoull(argv[2], 0, 10); unsigned a = atoi(argv[3]), b = atoi(argv[4]);
    uint64_t v = 0; bool ok = true;
    if (h.rfind("h_rook_", 0) == 0) v = slider_attack<ROOK>(Square(a), occ);
    else if (h.rfind("h_bishop_", 0) == 0) v = slider_attack<BISHOP>(Square(a), occ);
    else if (h.rfind("h_queen_", 0) == 0) v = slider_attack<QUEEN>(Square(a), occ);
    else if (h == "h_knight_mask") v = KNIGHT_MASK[a];
    else if (h == "h_king_mask") v = KING_MASK[a];
    else if (h == "h_rays") v = RAYS[b][a];
    else if (h == "h_lines") v = LINES[a][b];
    else if (h == "h_full_lines") v = FULL_LINES[a][b];
    else if (h == "h_pawn_attacks_0") v = pawn_attacks(occ, WHITE);
    else if (h == "h_pawn_attacks_1") v = pawn_attacks(occ, BLACK);
    else if (h.rfind("h_shift", 0) == 0) {
        std::string d = h.substr(h.rfind('_') + 1);
        Direction dir = d == "N" ? NORTH : d == "S" ? SOUTH : d == "E" ? EAST : d == "W" ? WEST : d == "NE" ? NORTHEAST : d == "NW" ? NORTHWEST
                      : d == "SE" ? SOUTHEAST : d == "SW" ? SOUTHWEST : d == "NN" ? DOUBLENORTH : DOUBLESOUTH;
        v = shift(occ, dir);
    } else ok = false;
    if (!ok) { printf("unsupported\n"); return 3; }
    printf("native=%llu\n", (unsigned long long)v);
    return 0;
}
