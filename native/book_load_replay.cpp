// native replay for the C19 file-reader harness: book_load_replay <file>   -> loads the file with the real PolyglotBook
// constructor and compares the loaded multiset of (key, move, weight) with an independent decoding of the complete records
#include "position.h"
#include "types.h"
#include <cstdio>
#include <map>
#include <random>
#include <tuple>
#include <vector>
#define private public     /* the replay reads the loaded map directly */
#include "polyglot.h"
#undef private
using namespace engine;
int main(int argc, char** argv) {
    if (argc < 2) return 2;
    std::vector<unsigned char> d; { FILE* f = fopen(argv[1], "rb"); if (f) { int c; while ((c = fgetc(f)) != EOF) d.push_back((unsigned char)c); fclose(f); } }
    std::map<std::tuple<uint64_t, uint32_t, int>, int> want, got;
    for (size_t i = 0; i + 16 <= d.size(); i += 16) {
        uint64_t k = 0; for (int b = 0; b < 8; b++) k = (k << 8) | d[i + b];
        unsigned mc = d[i + 8] << 8 | d[i + 9]; int w = d[i + 10] << 8 | d[i + 11];
        unsigned from = ((mc >> 9) & 7) * 8 + ((mc >> 6) & 7), to = ((mc >> 3) & 7) * 8 + (mc & 7), pc = (mc >> 12) & 7;
        want[{k, (pc ? (pc + 1) << 12 : 0) | to << 6 | from, w}]++;
    }
    PolyglotBook book(argv[1], 1);
    size_t n = 0;
    for (auto& kv : book._hashmap) for (auto& mw : kv.second) { got[{kv.first, (uint32_t)mw.first, mw.second}]++; n++; }
    printf("file bytes %zu complete records %zu loaded records %zu\n", d.size(), d.size() / 16, n);
    bool bad = want != got;
    printf(bad ? "REPRODUCED\n" : "NOT-REPRODUCED\n");
    return bad;
}
