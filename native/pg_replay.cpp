#include "polyglot.h"
#include "movegen.h"
#include "endgame.h"
#include "zobrist_hash.h"
#include <cstdio>
#include <cstdlib>
using namespace engine;
int main(int argc, char** argv) {
    if (argc < 3) return 2;
    move_bitboards::init(); zobrist::init(); bitbase::init(); endgame::init();
    Position pos(argv[1]); uint64_t want = strtoull(argv[2], 0, 10), got = PolyglotBook::hash(pos);
    printf("engine key %016llx expected %016llx %s\n", (unsigned long long)got, (unsigned long long)want, got != want ? "REPRODUCED" : "NOT-REPRODUCED");
    return got != want;
}
