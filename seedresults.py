#!/usr/bin/env python3
"""development aid: rebuild seeded/RESULTS.md from the seedtest log (/tmp/seedlogs/summary.txt); last run per (seed, check) wins"""
import re, sys, os
rows = {}
for l in open('/tmp/seedlogs/summary.txt'):
    m = re.match(r'(\S+) seed=(\S+) check=(\S+) tier=(\S+) rc=(\d+) ?(.*)', l.strip())
    if m: rows[(m.group(2), m.group(3))] = (m.group(5), m.group(6), m.group(4))
out = ['# Seeded changes: results of running the registered checks against them', '',
       'Each row: `seedtest.sh <seed> quick <check>` = `git -C /repo apply seeded/<seed>/patch.diff`; `python3 /verif/run_check.py <check> --tier quick`; `git -C /repo checkout -- .`',
       'rc 1 = VIOLATION reported (replay confirmed natively unless the line says UNCONFIRMED/strict in the run log), rc 0 = missed, rc 2 = check broken. Last run per (seed, check) shown;',
       'earlier runs that missed and the strengthening that followed are described in DESIGN.md section 7.', '',
       '| seed | check | rc | first VIOLATION lines |', '|---|---|---|---|']
for (s, c), (rc, txt, tier) in sorted(rows.items()):
    if not os.path.isdir('/verif/seeded/' + s): continue
    v = ' ; '.join(x for x in txt.split('|') if x.strip())[:260]
    out.append('| %s | %s | %s | %s |' % (s, c, rc, v))
open('/verif/seeded/RESULTS.md', 'w').write('\n'.join(out) + '\n')
print(len(out) - 8, 'rows')
