#!/bin/bash
# confirm a seeded change produced by a sub-agent: existing tests pass with it, the demo fails with it and passes without it
# usage: seedconfirm.sh <worktree> ; prints a summary line
wt=$1
cd $wt || exit 2
git apply -R --check patch.diff 2>/dev/null || { git checkout -q -- engine; git apply patch.diff || { echo "$wt: patch does not apply"; exit 2; }; }
mkdir -p _cfg; printf '#define CHESSPLUSPLUS_VERSION "seed"\n#define ENGINE_NAME "chessplusplus"\n' > _cfg/chessplusplusConfig.h
SRCS=$(ls engine/*.cpp | grep -v '/main.cpp$')
build() { g++ -std=c++20 -O1 -DNDEBUG -DLOG_LEVEL=0 -w -I engine -I _cfg -o $1 demo.cpp $SRCS -lpthread 2>&1 | tail -3; }
build demo_with; ./demo_with > out_with.txt 2>&1; rc_with=$?
# unit tests with the change
if [ ! -d _build ]; then cmake -G Ninja -B _build -S . -DFETCHCONTENT_FULLY_DISCONNECTED=ON -DFETCHCONTENT_SOURCE_DIR_GOOGLETEST=/usr/src/googletest >/dev/null 2>&1; fi
cmake --build _build --target unitTests >/dev/null 2>&1; ./_build/unitTests > ut.txt 2>&1; rc_ut=$?
git apply -R patch.diff
build demo_without; ./demo_without > out_without.txt 2>&1; rc_without=$?
git apply patch.diff
echo "$wt: demo_with_change=$rc_with demo_without_change=$rc_without unit_tests_with_change=$rc_ut ($(grep -c OK ut.txt) OK lines; $(grep PASSED ut.txt | tr -d '\n'))"
