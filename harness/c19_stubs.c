/* library surface of PolyglotBook::get_random_move / get_best_move, modelled for the C19 harness */
#include <stdint.h>
void *c19_vec(void); uint64_t c19_rnd(void);
void *_ZNKSt3mapImSt6vectorISt4pairIjiESaIS2_EESt4lessImESaIS1_IKmS4_EEE2atERS7_(void *map, uint64_t *key) { return c19_vec(); }
uint64_t RNG_STUB(void *dist, void *gen) { return c19_rnd(); }
