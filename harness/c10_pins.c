/* C10 - the pin table: generate_pins<side> as compiled writes its entries into the real global PINS[MAX_PINS].
   The position is ARBITRARY (occupancy bitboards, board array and king square need not even be consistent): the bound on
   the number of entries (one per ray, 8 rays) must hold for every state, so it holds for every reachable one. */
#include "ll2c_rt.h"
#include ENG_H
#include "fields.h"
typedef struct S_class_engine__Position Pos;
uint64_t nondet_u64(void); uint32_t nondet_u32(void);
#ifdef WITNESS
#define PROP(c, msg) do { __CPROVER_assert(0, "witness"); __CPROVER_assume(0); } while (0)
#else
#define PROP(c, msg) __CPROVER_assert(c, msg)
#endif
static Pos P;
uint32_t ce_side, ce_ksq, ce_npins; uint64_t ce_occ[2];
#define NPINS (sizeof(PINS_G) / sizeof(PINS_G[0]))
static void pins_case(int side) {
  for (int i = 0; i < 2; i++) { P.POS_by_color_bb[i] = nondet_u64(); ce_occ[i] = P.POS_by_color_bb[i]; }
  for (int k = 0; k < 7; k++) P.POS_by_piece_kind_bb[k] = nondet_u64();
  for (int sq = 0; sq < 64; sq++) { uint32_t pc = nondet_u32(); __CPROVER_assume(pc <= 12); P.POS_board[sq] = pc; }
  uint32_t ksq = nondet_u32(); __CPROVER_assume(ksq < 64); P.POS_piece_position[side ? 12 : 6][0] = ksq;
  P.POS_piece_count[side ? 12 : 6] = 1; P.POS_current_side = side;
  ce_side = side; ce_ksq = ksq;
  uint64_t pinned = 0;
  uint32_t *end = side ? GEN_PINS_B(&P, &PINS_G[0], &pinned) : GEN_PINS_W(&P, &PINS_G[0], &pinned);
  ce_npins = (uint32_t)(end - &PINS_G[0]);
  PROP(end >= &PINS_G[0] && (uint64_t)(end - &PINS_G[0]) <= NPINS, "C10 generate_pins writes at most MAX_PINS entries: the pin list stays inside the PINS table");
}
void h_pins_w(void) { pins_case(0); }
void h_pins_b(void) { pins_case(1); }
