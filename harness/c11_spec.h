/* Geometric definitions of attack sets and line tables, written from the rules of chess on a mailbox of
   (rank, file) coordinates; no engine code, no bitboard tricks. */
#ifndef C11_SPEC_H
#define C11_SPEC_H
#include <stdint.h>
static const int C11_DR[8] = {1,-1,0,0, 1,1,-1,-1}, C11_DF[8] = {0,0,1,-1, 1,-1,1,-1};
/* walk each ray until the first blocker (inclusive) */
static uint64_t spec_slider(int sq, uint64_t occ, int rook, int bishop) {
  uint64_t a = 0;
  for (int d = 0; d < 8; d++) {
    if (d < 4 ? !rook : !bishop) continue;
    int r = sq >> 3, f = sq & 7;
    for (int k = 0; k < 7; k++) {
      r += C11_DR[d]; f += C11_DF[d];
      if (r < 0 || r > 7 || f < 0 || f > 7) break;
      uint64_t b = 1ULL << (r * 8 + f);
      a |= b;
      if (occ & b) break;
    }
  }
  return a;
}
static uint64_t spec_leaper(int sq, int knight) {
  static const int NR[8] = {2,2,-2,-2,1,1,-1,-1}, NF[8] = {1,-1,1,-1,2,-2,2,-2};
  uint64_t a = 0;
  for (int j = 0; j < 8; j++) {
    int r = (sq >> 3) + (knight ? NR[j] : C11_DR[j]), f = (sq & 7) + (knight ? NF[j] : C11_DF[j]);
    if (r < 0 || r > 7 || f < 0 || f > 7) continue;
    a |= 1ULL << (r * 8 + f);
  }
  return a;
}
/* engine ray numbering: 0 NW, 1 N, 2 NE, 3 E, 4 SE, 5 S, 6 SW, 7 W */
static uint64_t spec_ray(int ray, int sq) {
  static const int RR[8] = {1,1,1,0,-1,-1,-1,0}, RF[8] = {-1,0,1,1,1,0,-1,-1};
  uint64_t a = 0; int r = sq >> 3, f = sq & 7;
  for (int k = 0; k < 7; k++) {
    r += RR[ray]; f += RF[ray];
    if (r < 0 || r > 7 || f < 0 || f > 7) break;
    a |= 1ULL << (r * 8 + f);
  }
  return a;
}
static int c11_aligned(int a, int b) {
  int dr = (b >> 3) - (a >> 3), df = (b & 7) - (a & 7);
  return dr == 0 || df == 0 || dr == df || dr == -df;
}
/* inclusive segment a..b when a and b share a rank, file or diagonal; empty otherwise; a==b gives the square */
static uint64_t spec_segment(int a, int b) {
  if (!c11_aligned(a, b)) return 0;
  int dr = (b >> 3) - (a >> 3), df = (b & 7) - (a & 7);
  int sr = dr > 0 ? 1 : dr < 0 ? -1 : 0, sf = df > 0 ? 1 : df < 0 ? -1 : 0;
  uint64_t s = 0; int r = a >> 3, f = a & 7;
  for (int k = 0; k < 8; k++) {
    s |= 1ULL << (r * 8 + f);
    if (r == (b >> 3) && f == (b & 7)) break;
    r += sr; f += sf;
  }
  return s;
}
/* the whole rank/file/diagonal through two distinct aligned squares; empty otherwise */
static uint64_t spec_full_line(int a, int b) {
  if (a == b || !c11_aligned(a, b)) return 0;
  uint64_t s = 0;
  int dr = (b >> 3) - (a >> 3), df = (b & 7) - (a & 7);
  for (int q = 0; q < 64; q++) {
    int qr = (q >> 3) - (a >> 3), qf = (q & 7) - (a & 7);
    int on = dr == 0 ? qr == 0 : df == 0 ? qf == 0 : dr == df ? qr == qf : qr == -qf;
    if (on) s |= 1ULL << q;
  }
  return s;
}
#endif
