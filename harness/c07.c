/* C07 - check / mate / stalemate / repetition / 50-move / material predicates. */
#define STUB_SLIDERS
#include "pos.h"
_Bool _ZNK6engine8Position11is_in_checkENS_5ColorE(Pos *, uint32_t);
_Bool _ZNK6engine8Position12is_checkmateEv(Pos *);
_Bool _ZNK6engine8Position12is_stalemateEv(Pos *);
_Bool _ZNK6engine8Position11is_repeatedEv(Pos *);
_Bool _ZNK6engine8Position20threefold_repetitionEv(Pos *);
_Bool _ZNK6engine8Position6rule50Ev(Pos *);
_Bool _ZNK6engine8Position15enough_materialEv(Pos *);
_Bool _ZNK6engine8Position7is_drawEv(Pos *);
#define HKEY P.POS_zobrist_hash

/* lemma: the two formulations of the attack test of the rules reference agree on every board */
void h_oracles_agree(void) {
  static SBoard B;
  for (int i = 0; i < 64; i++) { uint8_t p = nondet_u8(); __CPROVER_assume(p <= 12); B.b[i] = p; }
  uint32_t sq = nondet_u32() & 63, by = nondet_u32() & 1;
  PROP(s_attacked(&B, sq, by) == s_attacked_bb(&B, sq, by), "lemma: mailbox and bit-parallel attack tests agree on every board");
}
void incheck_case(const uint32_t *mat, int n, uint32_t side) {
  pos_build(mat, n, side, 0);
  _Bool a = _ZNK6engine8Position11is_in_checkENS_5ColorE(&P, side), b = _ZNK6engine8Position11is_in_checkENS_5ColorE(&P, 1 - side);
  ce_aux = a; ce_aux2 = b;
  PROP(a == (_Bool)S_ATTACKED(&S, s_king_sq(&S, side), 1 - side), "C07 is_in_check(side to move) agrees with the rules");
  PROP(b == (_Bool)S_ATTACKED(&S, s_king_sq(&S, 1 - side), side), "C07 is_in_check(side not to move) agrees with the rules");
}
/* is_checkmate / is_stalemate = (the generator returns no move) and (in check / not in check).  The generator is
   replaced by a stub returning an arbitrary number of moves: that an empty list means "no legal move" is C01. */
#ifdef MATE_LOGIC
static uint32_t gen_count;
uint32_t *_ZN6engine14generate_movesERKNS_8PositionENS_5ColorEPj(Pos *p, uint32_t side, uint32_t *list) {
  __CPROVER_assert(p == &P && side == P.POS_current_side, "mate/stalemate ask the generator about the side to move of this position");
  return list + gen_count;
}
void mate_case(const uint32_t *mat, int n, uint32_t side) {
  pos_build(mat, n, side, 0);
  gen_count = nondet_u32(); __CPROVER_assume(gen_count <= 3); ce_aux = gen_count;
  _Bool mate = _ZNK6engine8Position12is_checkmateEv(&P), stale = _ZNK6engine8Position12is_stalemateEv(&P);
  int incheck = S_ATTACKED(&S, s_king_sq(&S, side), 1 - side);
  PROP(mate == (gen_count == 0 && incheck), "C07 is_checkmate iff no move is generated and the side to move is in check");
  PROP(stale == (gen_count == 0 && !incheck), "C07 is_stalemate iff no move is generated and the side to move is not in check");
}
#endif
#ifndef HMAX
#define HMAX 12
#endif
void h_repetition(void) {
  uint32_t hc = nondet_u32(); __CPROVER_assume(hc >= 1 && hc <= HMAX); ce_aux = hc;
  for (int i = 0; i < HMAX; i++) P.POS_history[i] = nondet_u64();
  P.POS_history_counter = hc;
  HKEY.HK_piece_key = nondet_u64(); HKEY.HK_pawn_key = nondet_u64(); HKEY.HK_enpassant_key = nondet_u64(); HKEY.HK_castling_key = nondet_u64(); HKEY.HK_color_key = nondet_u64();
  uint64_t key = HKEY.HK_piece_key ^ HKEY.HK_pawn_key ^ HKEY.HK_enpassant_key ^ HKEY.HK_castling_key ^ HKEY.HK_color_key;
  /* the last entry is the current position itself (pushed by do_move) and does not count as an earlier occurrence */
  int earlier = 0;
  for (int i = 0; i < HMAX; i++) if (i + 1 < (int)hc && P.POS_history[i] == key) earlier++;
  _Bool rep = _ZNK6engine8Position11is_repeatedEv(&P), three = _ZNK6engine8Position20threefold_repetitionEv(&P);
  PROP(rep == (earlier >= 1), "C07 is_repeated iff the current key occurred earlier in the game");
  PROP(three == (earlier >= 2), "C07 threefold_repetition iff the current key occurred at least twice earlier");
}
void h_rule50(void) {
  uint8_t hm = nondet_u8(); P.POS_half_move_counter = hm; ce_aux = hm;
  PROP(_ZNK6engine8Position6rule50Ev(&P) == (hm >= 100), "C07 rule50 iff the half-move clock reached 100");
}
void h_material(void) {
  int tot = 0, minors = 0, others = 0;
  for (int pc = 1; pc < 13; pc++) {
    int32_t c = nondet_i32(); __CPROVER_assume(c >= 0 && c <= 10);
    if (pc == 6 || pc == 12) c = 1;
    P.POS_piece_count[pc] = c; ce_pc[pc % NPMAX] = c;
    if (pc != 6 && pc != 12) { tot += c; if (pc == 2 || pc == 3 || pc == 8 || pc == 9) minors += c; else others += c; }
  }
  int insufficient = tot == 0 || (tot == 1 && minors == 1);
  PROP(_ZNK6engine8Position15enough_materialEv(&P) == !insufficient, "C07 insufficient material iff bare kings or a single minor piece");
}
void h_is_draw(void) {
  uint32_t hc = nondet_u32(); __CPROVER_assume(hc >= 1 && hc <= 6);
  for (int i = 0; i < 6; i++) P.POS_history[i] = nondet_u64();
  P.POS_history_counter = hc;
  HKEY.HK_piece_key = nondet_u64();
  P.POS_half_move_counter = nondet_u8();
  for (int pc = 1; pc < 13; pc++) { int32_t c = nondet_i32(); __CPROVER_assume(c >= 0 && c <= 10); P.POS_piece_count[pc] = (pc == 6 || pc == 12) ? 1 : c; }
  _Bool d = _ZNK6engine8Position7is_drawEv(&P);
  PROP(d == (_ZNK6engine8Position6rule50Ev(&P) || _ZNK6engine8Position20threefold_repetitionEv(&P) || !_ZNK6engine8Position15enough_materialEv(&P)),
       "C07 is_draw is the disjunction of the three draw conditions");
}
