/* C18 - opening-book keys follow the Polyglot specification.
   (a) structure: for a symbolic position the key is the XOR of one piece-square random per piece, one castling random
       per right, the en-passant file random iff a pawn of the side to move stands next to the pushed pawn, and the
       turn random iff White is to move;
   (b) the nine published test vectors of the format description, re-derived through the translated code;
   (c) the piece randoms follow the official Random64 layout: 64*(2*kind + colour) + 8*rank + file, checked against
       the flat arrangement for a symbolic (piece, square) -- table identity, not values (see check notes). */
#define STUB_SLIDERS
#include "pos.h"
uint64_t _ZN6engine12PolyglotBook4hashERKNS_8PositionE(Pos *);
#ifdef STRUCT
/* indicator encoding of the piece-square table (see harness/make.c for the argument) */
static uint32_t ind_pc, ind_sq; static uint64_t ind_v;
uint64_t env_pg_piece(uint64_t pc, uint64_t sq) { __CPROVER_assert(pc < 13 && sq < 64, "POLYGLOT_PIECE index in bounds"); return (pc == ind_pc && sq == ind_sq) ? ind_v : 0; }
#define PG_PIECE(pc, sq) env_pg_piece(pc, sq)
#else
extern uint64_t _ZN6engineL14POLYGLOT_PIECEE[13][64];
#define PG_PIECE(pc, sq) _ZN6engineL14POLYGLOT_PIECEE[pc][sq]
#endif
extern uint64_t _ZN6engineL18POLYGLOT_ENPASSANTE[8];
extern uint64_t CASTLE_WS, CASTLE_WL, CASTLE_BS, CASTLE_BL, TURN;

#ifdef STRUCT
void key_case(const uint32_t *mat, int n, uint32_t side) {
  pos_build(mat, n, side, 0);
  ind_pc = nondet_u32(); ind_sq = nondet_u32(); ind_v = nondet_u64(); __CPROVER_assume(ind_pc < 13 && ind_sq < 64);
  uint64_t want = 0;
  if (ind_pc != 0 && S.b[ind_sq & 63] == ind_pc) want ^= ind_v;        /* XOR over the pieces of their cells, under the indicator table */
  if (S.cr & 1) want ^= CASTLE_WS; if (S.cr & 2) want ^= CASTLE_WL; if (S.cr & 4) want ^= CASTLE_BS; if (S.cr & 8) want ^= CASTLE_BL;
  if (S.ep != 64) {
    uint32_t pawn = side ? S.ep + 8 : S.ep - 8, own = side ? 7 : 1;     /* the pawn that just made the double step */
    int left = (pawn & 7) > 0 && S.b[(pawn - 1) & 63] == own, right = (pawn & 7) < 7 && S.b[(pawn + 1) & 63] == own;
    if (left || right) want ^= _ZN6engineL18POLYGLOT_ENPASSANTE[S.ep & 7];
  }
  if (side == 0) want ^= TURN;
  uint64_t got = _ZN6engine12PolyglotBook4hashERKNS_8PositionE(&P);
  ce_got = got; ce_want = want;
  PROP(got == want, "C18 book key is the XOR of the piece-square, castling, en-passant (only with an adjacent capturer) and turn randoms");
}
#endif
#ifdef VECTORS
/* published vectors: concrete positions */
static void place(const char *rows[8]) {
  for (int r = 0; r < 8; r++) { int f = 0; for (const char *c = rows[r]; *c; c++) {
      if (*c >= '1' && *c <= '8') f += *c - '0';
      else { const char *L = " PNBRQKpnbrqk"; uint32_t pc = 0; for (uint32_t k = 1; k < 13; k++) if (L[k] == *c) pc = k; pos_put(&P, pc, (7 - r) * 8 + f); f++; } } }
}
#define VEC(name, r8, r7, r6, r5, r4, r3, r2, r1, side, cr, ep, key) \
  void name(void) { static const char *rows[8] = {r8, r7, r6, r5, r4, r3, r2, r1}; place(rows); P.POS_current_side = side; P.POS_castling_rights = cr; P.POS_enpassant_square = ep; \
    ce_got = _ZN6engine12PolyglotBook4hashERKNS_8PositionE(&P); ce_want = key; PROP(ce_got == ce_want, "C18 published Polyglot test vector"); }
VEC(h_vec_1, "rnbqkbnr", "pppppppp", "8", "8", "8", "8", "PPPPPPPP", "RNBQKBNR", 0, 15, 64, 0x463b96181691fc9cULL)
VEC(h_vec_2, "rnbqkbnr", "pppppppp", "8", "8", "4P3", "8", "PPPP1PPP", "RNBQKBNR", 1, 15, 20, 0x823c9b50fd114196ULL)
VEC(h_vec_3, "rnbqkbnr", "ppp1pppp", "8", "3p4", "4P3", "8", "PPPP1PPP", "RNBQKBNR", 0, 15, 43, 0x0756b94461c50fb0ULL)
VEC(h_vec_4, "rnbqkbnr", "ppp1pppp", "8", "3pP3", "8", "8", "PPPP1PPP", "RNBQKBNR", 1, 15, 64, 0x662fafb965db29d4ULL)
VEC(h_vec_5, "rnbqkbnr", "ppp1p1pp", "8", "3pPp2", "8", "8", "PPPP1PPP", "RNBQKBNR", 0, 15, 45, 0x22a48b5a8e47ff78ULL)
VEC(h_vec_6, "rnbqkbnr", "ppp1p1pp", "8", "3pPp2", "8", "8", "PPPPKPPP", "RNBQ1BNR", 1, 12, 64, 0x652a607ca3f242c1ULL)
VEC(h_vec_7, "rnbq1bnr", "ppp1pkpp", "8", "3pPp2", "8", "8", "PPPPKPPP", "RNBQ1BNR", 0, 0, 64, 0x00fdd303c946bdd9ULL)
VEC(h_vec_8, "rnbqkbnr", "p1pppppp", "8", "8", "PpP4P", "8", "1P1PPPP1", "RNBQKBNR", 1, 15, 18, 0x3c8123ea7b067637ULL)
VEC(h_vec_9, "rnbqkbnr", "p1pppppp", "8", "8", "P6P", "R1p5", "1P1PPPP1", "1NBQKBNR", 1, 13, 64, 0x5c3f9b829b279560ULL)
#endif
