/* C15 - move classification predicates vs what actually happens when the move is played (mailbox reference). */
#define STUB_SLIDERS
#include "pos.h"
_Bool _ZNK6engine8Position15move_is_captureEj(Pos *, uint32_t);
_Bool _ZNK6engine8Position13move_is_quietEj(Pos *, uint32_t);
_Bool _ZNK6engine8Position16move_gives_checkEj(Pos *, uint32_t);
void cls_case(const uint32_t *mat, int n, uint32_t side) {
  pos_build(mat, n, side, 0);
  SMove m = nondet_move();
  __CPROVER_assume(s_legal(&S, m));
  uint32_t mv = enc_move(m); ce_mv = mv;
  SBoard T; s_apply(&S, m, &T);
  int c0 = 0, c1 = 0;
  for (int s = 0; s < 64; s++) { c0 += S.b[s] != 0; c1 += T.b[s] != 0; }
  int wcap = c1 < c0, wquiet = !wcap && m.promo == 0;
  int wchk = S_ATTACKED(&T, s_king_sq(&T, 1 - side), side);
  _Bool cap = _ZNK6engine8Position15move_is_captureEj(&P, mv);
  _Bool quiet = _ZNK6engine8Position13move_is_quietEj(&P, mv);
  _Bool chk = _ZNK6engine8Position16move_gives_checkEj(&P, mv);
  ce_aux = (uint32_t)cap | (uint32_t)quiet << 1 | (uint32_t)chk << 2; ce_aux2 = (uint32_t)wcap | (uint32_t)wquiet << 1 | (uint32_t)wchk << 2;
  PROP(cap == wcap, "C15 move_is_capture agrees with a piece disappearing when the move is played");
  PROP(quiet == wquiet, "C15 move_is_quiet agrees with: nothing captured and nothing promoted");
#ifdef SPLIT_CHECK
  if (m.castle) PROP(chk == wchk, "C15 move_gives_check (castling) agrees with the opponent king being attacked afterwards");
  else if (m.promo) PROP(chk == wchk, "C15 move_gives_check (promotion) agrees with the opponent king being attacked afterwards");
  else PROP(chk == wchk, "C15 move_gives_check agrees with the opponent king being attacked afterwards");
#else
  PROP(chk == wchk, "C15 move_gives_check agrees with the opponent king being attacked afterwards");
#endif
}
