/* C08 - score2str hands the number of MOVES to mate (UCI) to std::to_string: ceil(plies / 2), negative sign for the side being mated */
#include "eng.h"
typedef struct S_class_std____cxx11__basic_string Str;
int64_t nondet_i64(void);
#ifdef WITNESS
#define PROP(c, msg) do { __CPROVER_assert(0, "witness"); __CPROVER_assume(0); } while (0)
#else
#define PROP(c, msg) __CPROVER_assert(c, msg)
#endif
static int64_t ts_arg; static int ts_calls; static uint8_t prefix0, prefix5;
int64_t ce_score, ce_arg;
#include "score2str_glue.h"
void _ZN6engine9score2strB5cxx11El(Str *, uint64_t);
void h_score2str(void) {
  int64_t score = nondet_i64(); __CPROVER_assume(score >= -640000 && score <= 640000); ce_score = score;
  static Str out;
  _ZN6engine9score2strB5cxx11El(&out, (uint64_t)score);
  ce_arg = ts_arg;
  PROP(ts_calls == 1, "score2str formats exactly one number");
  if (score >= 639960) { int64_t plies = 640000 - score; PROP(prefix0 == 'm' && prefix5 != '-' && ts_arg == (plies + 1) / 2, "C08 'score mate y' counts moves: y = ceil(plies/2) for the winning side"); }
  else if (score <= -639960) { int64_t plies = 640000 + score; PROP(prefix0 == 'm' && prefix5 == '-' && ts_arg == (plies + 1) / 2, "C08 'score mate -y' counts moves for the side being mated"); }
  else PROP(prefix0 == 'c', "C08 non-mate scores are printed as centipawns");
}
