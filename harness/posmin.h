/* minimal Position for functions that only read the board: arbitrary board contents */
#ifndef POSMIN_H
#define POSMIN_H
#include "eng_pos.h"
static struct S_class_engine__Position MP; static uint32_t MB[64];
uint8_t nondet_u8(void);
static void minimal_position(void) {
  for (int i = 0; i < 64; i++) { uint32_t p = nondet_u8(); __CPROVER_assume(p <= 12); MP.POS_board[i] = p; MB[i] = p; }
}
#endif
