/* Level B of the search checks: ONE node of Search::search / Search::quiescence_search executed as compiled.
   The definitions are emitted under the names search_node / qsearch_node; the recursive calls inside them go to the
   child stubs below.  Environment of the node (all arbitrary within their contracts):
     generate_moves  -> 0..NM distinct moves (root: the root list 1..NM);  order_moves -> an arbitrary permutation;
     do_move/undo_move/null moves -> counted (balance), MoveInfo arbitrary valid;  is_in_check, is_repeated, is_draw,
     move_is_quiet, move_gives_check, no_nonpawns -> arbitrary answers (C07/C15);  PositionScorer::score -> a value strictly
     inside the non-mate range (C14);  transposition table probe -> found or not, entry with ARBITRARY fields (poisoned or
     colliding entries included), insert -> recorded;  children -> poll the stop flag at entry as the real code does, may be
     interrupted, otherwise return a value in [-VALUE_MATE, VALUE_MATE] and leave an arbitrary PV in their stack slot. */
#include "eng.h"
#include "fields.h"
#include "search_paths.h"
typedef struct S_class_engine__Search Search; typedef struct S_struct_engine__Info Info; typedef struct S_class_engine__Position Pos;
uint32_t nondet_u32(void); uint64_t nondet_u64(void); int32_t nondet_i32(void); int64_t nondet_i64(void); _Bool nondet_bool(void);
#ifdef WITNESS
#define PROP(c, msg) do { __CPROVER_assert(0, "witness"); __CPROVER_assume(0); } while (0)
#else
#define PROP(c, msg) __CPROVER_assert(c, msg)
#endif
#define VALUE_INFINITE 640001LL
#define VALUE_MATE 640000LL
#define VALUE_NONE 640002LL
#define MATE_BOUND 639960LL      /* win_in(MAX_DEPTH) */
#ifndef NM
#define NM 3
#endif
static Search SE;
static uint32_t LIST[NM + 1], nlist;          /* the node's move list as generated (or the root list) */
static uint32_t RM[NM + 1];
static int in_check, n_children, n_do, n_undo, n_donull, n_undonull, n_gen, n_inserts, tt_found, stop_at_entry, child_idx_bad, child_saw_mate_move, mate_move_idx;
static uint32_t cur_move, inserted_move; static int children_after_stop;
static int64_t child_min, child_max; static int all_children_in_range = 1;
#define NCV 16
static int64_t CV[NCV], handover_value; static int ncv, handover;   /* values returned by the children searched after a real move */
int32_t ce_idx, ce_depth, ce_nlist, ce_incheck, ce_ttfound, ce_ttflag, ce_ttdepth, ce_pvlen, ce_nchildren, ce_stop_entry, ce_isroot; uint32_t ce_list[NM + 1], ce_pv0, ce_ttmove; int64_t ce_alpha, ce_beta, ce_result, ce_ttscore;

uint64_t search_node(Search *, Pos *, uint32_t, uint64_t, uint64_t, Info *);
uint64_t qsearch_node(Search *, Pos *, uint32_t, uint64_t, uint64_t, Info *);
_Bool _ZN6engine6Search12check_limitsEv(Search *);
static int in_list(uint32_t mv) { int ok = 0; for (uint32_t i = 0; i < NM; i++) if (i < nlist && LIST[i] == mv) ok = 1; return ok; }

/* ---- children (the recursive calls) ---- */
static uint64_t child(Search *s, Info *info, int kind) {
  n_children++;
  /* children use the next stack slot; internal iterative deepening re-searches the node itself in its own slot */
  int own = (info == &SE.SRCH_stack_info.f0[1]);
  if (!own && info != &SE.SRCH_stack_info.f0[2]) child_idx_bad = 1;
  if (!own && IDX + 1 > STACK_LAST) child_idx_bad = 1;                /* the child would use a stack slot that does not exist */
  if (STOPFLAG || nondet_bool()) { STOPFLAG = 1; return 0; }      /* the child polls the flag and its limits at entry (Level A executes the real check_limits) */
  if (stop_at_entry) children_after_stop++;
  if (nondet_bool()) { STOPFLAG = 1; return 0; }             /* interrupted deeper down */
  int64_t v = nondet_i64(); __CPROVER_assume(v >= -VALUE_MATE && v <= VALUE_MATE);
#ifdef MATE_IN_ONE
  if (n_do > n_undo && cur_move == LIST[mate_move_idx % NM]) { v = -VALUE_MATE; child_saw_mate_move = 1; }   /* the opponent is checkmated after this move */
  else __CPROVER_assume(v > -VALUE_MATE);
#endif
  if (v < child_min) child_min = v; if (v > child_max) child_max = v;
  if (!own && n_do > n_undo) { for (int i = 0; i < NCV; i++) if (i == ncv) CV[i] = v; ncv++; }
  if (own || IDX + 1 <= STACK_LAST) {
    uint32_t len = nondet_u32(); __CPROVER_assume(len <= 8);
    info->INFO_pv_list_length = len;
    for (uint32_t i = 0; i < 8; i++) if (i < len) info->INFO_pv_list.f0[i] = nondet_u32();
  }
  return (uint64_t)v;
}
uint64_t _ZN6engine6Search6searchERNS_8PositionEillPNS_4InfoE(Search *s, Pos *p, uint32_t depth, uint64_t alpha, uint64_t beta, Info *info) {
  __CPROVER_assert((int32_t)depth >= 0 && (int32_t)depth <= 41, "child search depth stays within 0..MAX_DEPTH+1");
  return child(s, info, 0);
}
uint64_t _ZN6engine6Search17quiescence_searchERNS_8PositionEillPNS_4InfoE(Search *s, Pos *p, uint32_t depth, uint64_t alpha, uint64_t beta, Info *info) {
#ifdef QNODE
  return child(s, info, 1);
#else
  /* search() hands the same node over to quiescence_search (same stack slot): arbitrary value in range, PV arbitrary */
  if (info != &SE.SRCH_stack_info.f0[1]) child_idx_bad = 1;
  __CPROVER_assert((int32_t)depth + IDX <= 80, "quiescence depth handed over by search() keeps stack index + depth within the stack");
  int64_t v = nondet_i64(); __CPROVER_assume(v >= -VALUE_MATE && v <= VALUE_MATE);
  uint32_t len = nondet_u32(); __CPROVER_assume(len <= 8); info->INFO_pv_list_length = len;
  if (len > 0) { uint32_t k = nondet_u32(); __CPROVER_assume(k < nlist); info->INFO_pv_list.f0[0] = LIST[k % NM]; }   /* what C05-B proves for the quiescence node */
  handover = 1; handover_value = v;
  return (uint64_t)v;
#endif
}
/* ---- environment ---- */
uint64_t _ZNSt6chrono3_V212steady_clock3nowEv(void) { uint64_t t = nondet_u64(); return t; }
uint32_t *_ZN6engine14generate_movesERKNS_8PositionENS_5ColorEPj(Pos *p, uint32_t side, uint32_t *list) {
  n_gen++;
  for (uint32_t i = 0; i < NM; i++) if (i < nlist) list[i] = LIST[i];
  return list + nlist;
}
static void setup_list(int root) {
  uint32_t k = nondet_u32(); __CPROVER_assume(k <= NM && (!root || k >= 1));
  for (uint32_t i = 0; i < NM; i++) if (i < k) { uint32_t mv = nondet_u32() & 0x1ffff; __CPROVER_assume(mv != 0);
    { uint32_t pr = (mv >> 12) & 7, cs = mv >> 15; __CPROVER_assume(cs <= 2 && (cs == 0 ? (pr == 0 || (pr >= 2 && pr <= 5)) : (mv & 0x7fff) == 0)); }   /* canonical encodings of legal moves (C01/C16) */ for (uint32_t j = 0; j < i; j++) __CPROVER_assume(LIST[j] != mv); LIST[i] = mv; ce_list[i] = mv; }
  nlist = k; ce_nlist = k;
  if (root) { for (uint32_t i = 0; i < NM; i++) RM[i] = LIST[i]; SE.SRCH_root_moves VECPATH.f0 = &RM[0]; SE.SRCH_root_moves VECPATH.f1 = &RM[0] + k; SE.SRCH_root_moves VECPATH.f2 = &RM[0] + NM; }
}
uint32_t _ZN6engine8Position7do_moveEj(Pos *p, uint32_t mv) { n_do++; cur_move = mv; uint32_t mi = nondet_u32(); __CPROVER_assume((mi & 7) <= 6 && mi < (1u << 23)); return mi; }
void _ZN6engine8Position9undo_moveEjj(Pos *p, uint32_t mv, uint32_t mi) { n_undo++; __CPROVER_assert(mv == cur_move || n_do > n_undo, "undo matches the move made"); }
uint32_t _ZN6engine8Position12do_null_moveEv(Pos *p) { n_donull++; return nondet_u32() & ((1u << 23) - 1); }
void _ZN6engine8Position14undo_null_moveEj(Pos *p, uint32_t mi) { n_undonull++; }
_Bool _ZNK6engine8Position11is_in_checkENS_5ColorE(Pos *p, uint32_t c) { return in_check; }
_Bool _ZNK6engine8Position11is_repeatedEv(Pos *p) { return nondet_bool(); }
_Bool _ZNK6engine8Position7is_drawEv(Pos *p) { return nondet_bool(); }
uint32_t _ZNK6engine8Position11no_nonpawnsENS_5ColorE(Pos *p, uint32_t c) { uint32_t n = nondet_u32(); __CPROVER_assume(n <= 40); return n; }
_Bool _ZNK6engine8Position13move_is_quietEj(Pos *p, uint32_t mv) { return nondet_bool(); }
_Bool _ZNK6engine8Position16move_gives_checkEj(Pos *p, uint32_t mv) {
#ifdef MATE_IN_ONE
  if (mv == LIST[mate_move_idx % NM]) return 1;         /* a mating move gives check (C15) */
#endif
  return nondet_bool();
}
uint32_t _ZN6engine19late_move_reductionEii(uint32_t depth, uint32_t n) { uint32_t r = nondet_u32(); __CPROVER_assume(r <= 6); return r; }
#include "searchb_glue.h"     /* probe / insert / isCurrentEpoch / score / order_moves / update_move_scores with the prototypes of eng.h */

static void setup_node(int root) {
  in_check = nondet_bool(); ce_incheck = in_check; ce_idx = IDX; ce_isroot = root;
  setup_list(root);
  Info *prev = &SE.SRCH_stack_info.f0[0];
  prev->INFO_ply = IDX - 2;                                /* invariant of the stack: slot i holds ply i-1 */
  prev->INFO_current_move = nondet_u32();
  prev->INFO_counter_move = &SE.SRCH_counter_move_table.f0[0].f0[0];
  { Info *me = &SE.SRCH_stack_info.f0[1];                   /* the node's own slot still holds the PV of an earlier sibling line or iteration */
    uint32_t sl = nondet_u32(); __CPROVER_assume(sl <= 8); me->INFO_pv_list_length = sl;
    for (uint32_t i = 0; i < 8; i++) me->INFO_pv_list.f0[i] = nondet_u32(); }
  SE.SRCH_check_limits_counter = nondet_i64(); __CPROVER_assume(SE.SRCH_check_limits_counter >= 1);
  SE.SRCH_max_nodes_searched = nondet_u64(); SE.SRCH_search_time = nondet_i64(); SE.SRCH_stats.f0 = nondet_u64() >> 8;
  tt_found = nondet_bool(); ce_ttfound = tt_found;
  TT_ENTRY.f1 = nondet_u32(); { int64_t sc = nondet_i64(); __CPROVER_assume(sc >= -VALUE_INFINITE && sc <= VALUE_INFINITE); TT_ENTRY.f3.f0 = (uint64_t)sc; }   /* any score a search can store; depth, flag, move and epoch arbitrary */
  TT_ENTRY.f3.f0 = TT_ENTRY.f3.f0; TT_ENTRY.f3.f1 = nondet_u32(); TT_ENTRY.f3.f2 = nondet_u32(); TT_ENTRY.f3.f3 = nondet_u32();
#ifdef MATE_IN_ONE
  tt_found = 0;
  mate_move_idx = nondet_u32() % NM; __CPROVER_assume((uint32_t)mate_move_idx < nlist);
#endif
  ce_ttscore = (int64_t)TT_ENTRY.f3.f0; ce_ttdepth = TT_ENTRY.f3.f1; ce_ttflag = TT_ENTRY.f3.f2; ce_ttmove = TT_ENTRY.f3.f3;
  stop_at_entry = nondet_bool(); STOPFLAG = stop_at_entry; ce_stop_entry = stop_at_entry;
  child_min = VALUE_INFINITE; child_max = -VALUE_INFINITE;
}
static void common_post(Info *info, int64_t alpha, int64_t beta, int64_t res, int qnode) {
  ce_result = res; ce_pvlen = info->INFO_pv_list_length; ce_pv0 = info->INFO_pv_list.f0[0]; ce_nchildren = n_children;
  PROP(!child_idx_bad, "C10 children are called with the next stack slot, which exists (index within the search stack)");
  PROP(n_do == n_undo && n_donull == n_undonull, "C03/C05 every move made at the node is taken back before returning");
  if (stop_at_entry) PROP(n_children == 0 && n_do == 0 && n_gen <= 1, "C06 a stop that is already set when the node is entered is honoured before any move is searched");
  if (!STOPFLAG) {
    PROP(info->INFO_pv_list_length >= 0 && info->INFO_pv_list_length <= 9, "C05 PV length is the child's length plus one at most");
    /* the parent adopts this node's PV exactly when the node did not fail high (its value, negated, beats the parent's alpha);
       at the root the PV is the answer itself */
    if (res < beta || ce_isroot) PROP(info->INFO_pv_list_length == 0 || in_list(info->INFO_pv_list.f0[0]), "C05 the first PV move of a node is one of its generated (legal) moves, whatever the transposition table holds");
    /* induction step for mate scores: with children, evaluation and (honest) table scores inside [-VALUE_MATE, VALUE_MATE] so is the node's value */
    if (!tt_found || ((int64_t)TT_ENTRY.f3.f0 >= -VALUE_MATE && (int64_t)TT_ENTRY.f3.f0 <= VALUE_MATE))
      PROP(res >= -VALUE_MATE && res <= VALUE_MATE, "C08 a node whose children and evaluation stay in range returns a value in [-VALUE_MATE, VALUE_MATE], never +-infinity");
    if (n_inserts > 0) PROP(in_list(inserted_move), "C05 only moves of the node are stored in the transposition table");
    /* iter_search consumes the root PV only when the value is strictly inside the window it searched with (otherwise it re-searches or stops) */
    if (ce_isroot && ce_depth >= 1 && res > alpha && res < beta) PROP(info->INFO_pv_list_length > 0 && in_list(info->INFO_pv_list.f0[0]), "C09 the root's PV head (the bestmove) is one of the root moves, i.e. of the searchmoves when given, whatever the transposition table holds");
    /* induction step for mate DISTANCES: a mate score returned by the node is one ply further than a mate score returned by one of the
       children searched after a move of the node, unless it is a bound of the incoming window, the table's score, the node's own
       mate (no legal moves) or the value of the quiescence search the node was handed to.  (The evaluation stays outside the mate range.) */
    if (res >= MATE_BOUND || res <= -MATE_BOUND) {
      int64_t tts = (int64_t)TT_ENTRY.f3.f0;
      int ok = (res == alpha || res == beta) || (tt_found && (tts >= MATE_BOUND || tts <= -MATE_BOUND) && (tts > 0) == (res > 0)) ||     /* a stored mate score (possibly ply-adjusted by the table code) */
               (nlist == 0 && res == -VALUE_MATE) || (handover && res == handover_value);
      for (int i = 0; i < NCV; i++) if (i < ncv) { int64_t r = -CV[i]; if ((r >= MATE_BOUND || r <= -MATE_BOUND) && res == (r > 0 ? r - 1 : r + 1)) ok = 1; }
      PROP(ncv > NCV || ok, "C08 a mate score returned by a node is exactly one ply further away than the mate score of one of its children");
    }
  }
}
void h_search(void) {
  int root = (IDX == 1);
  setup_node(root);
  int32_t depth = nondet_i32(); int64_t alpha = nondet_i64(), beta = nondet_i64();
  __CPROVER_assume(depth >= 0 && depth <= 41 && alpha >= -VALUE_INFINITE && beta <= VALUE_INFINITE && alpha < beta);
  __CPROVER_assume(IDX - 1 + depth <= 81);                 /* ply + depth <= MAX_DEPTH*2+1: depth is at most MAX_DEPTH plus check extensions along the path */
#ifdef MATE_IN_ONE
  /* iteration 1 (and 2) of iterative deepening searches the full window; a mate found there ends the search (iter_search breaks on a mate score) */
  __CPROVER_assume(alpha == -VALUE_INFINITE && beta == VALUE_INFINITE && depth >= 1);
#endif
  ce_depth = depth; ce_alpha = alpha; ce_beta = beta;
  Info *info = &SE.SRCH_stack_info.f0[1];
  int64_t res = (int64_t)search_node(&SE, &SE.SRCH_position, (uint32_t)depth, (uint64_t)alpha, (uint64_t)beta, info);
  common_post(info, alpha, beta, res, 0);
  if (!STOPFLAG && nlist == 0 && !root) PROP(n_children == 0 && (res == 0 || (in_check && res == -VALUE_MATE)), "C08 a node without legal moves is scored as mate (only when in check) or draw");
#ifdef MATE_IN_ONE
  if (!STOPFLAG && depth >= 1) {
    PROP(res == VALUE_MATE - 1, "C08 a root with a mating move returns mate in one");
    PROP(info->INFO_pv_list_length >= 1 && info->INFO_pv_list.f0[0] == LIST[mate_move_idx % NM], "C08 the mating move becomes the best move whatever the move ordering and the other moves' values");
  }
#endif
}
void h_qsearch(void) {
  setup_node(0);
  int32_t depth = nondet_i32(); int64_t alpha = nondet_i64(), beta = nondet_i64();
  __CPROVER_assume(depth >= -1 && depth <= 39 && alpha >= -VALUE_INFINITE && beta <= VALUE_INFINITE && alpha < beta);
  __CPROVER_assume(IDX + depth <= 80);                     /* entered from search() at ply >= 0 with depth 39 at stack index <= 41: index + depth never exceeds 41 + 39 */
  ce_depth = depth; ce_alpha = alpha; ce_beta = beta;
  Info *info = &SE.SRCH_stack_info.f0[1];
  int64_t res = (int64_t)qsearch_node(&SE, &SE.SRCH_position, (uint32_t)depth, (uint64_t)alpha, (uint64_t)beta, info);
  common_post(info, alpha, beta, res, 1);
}
