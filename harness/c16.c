/* C16 (encoding part) - the packed move / move-info encodings decode to the fields they were built from. */
#include "eng.h"
uint32_t nondet_u32(void); uint8_t nondet_u8(void); _Bool nondet_bool(void);
#ifdef WITNESS
#define PROP(c, msg) do { __CPROVER_assert(0, "witness"); __CPROVER_assume(0); } while (0)
#else
#define PROP(c, msg) __CPROVER_assert(c, msg)
#endif
uint32_t ce_a, ce_b, ce_c, ce_d, ce_e, ce_got;
void h_move_roundtrip(void) {      /* create_move(from, to) */
  uint32_t f = nondet_u32(), t = nondet_u32(); __CPROVER_assume(f < 64 && t < 64); ce_a = f; ce_b = t;
  uint32_t m = _ZN6engine11create_moveENS_6SquareES0_(f, t); ce_got = m;
  PROP(_ZN6engine4fromEj(m) == f && _ZN6engine2toEj(m) == t && _ZN6engine9promotionEj(m) == 0 && _ZN6engine8castlingEj(m) == 0, "C16 create_move decodes to its fields");
}
void h_promotion_roundtrip(void) { /* create_promotion(from, to, kind) incl. kind = NO_PIECE_KIND as parse_uci uses it */
  uint32_t f = nondet_u32(), t = nondet_u32(), k = nondet_u32(); __CPROVER_assume(f < 64 && t < 64 && (k == 0 || (k >= 2 && k <= 5))); ce_a = f; ce_b = t; ce_c = k;
  uint32_t m = _ZN6engine16create_promotionENS_6SquareES0_NS_9PieceKindE(f, t, k); ce_got = m;
  PROP(_ZN6engine4fromEj(m) == f && _ZN6engine2toEj(m) == t && _ZN6engine9promotionEj(m) == k && _ZN6engine8castlingEj(m) == 0, "C16 create_promotion decodes to its fields");
  PROP(m < (1u << 15), "C16 promotion encoding leaves the castling bits clear");
}
void h_castling_roundtrip(void) {  /* create_castling(KING_CASTLING=5 | QUEEN_CASTLING=10) */
  uint32_t c = nondet_bool() ? 5 : 10; ce_a = c;
  uint32_t m = _ZN6engine15create_castlingENS_8CastlingE(c); ce_got = m;
  PROP(_ZN6engine8castlingEj(m) == c, "C16 create_castling decodes to its castling side");
  PROP(m != 0 && (m & 0x7fff) == 0, "C16 castling encoding differs from every ordinary move and from NO_MOVE");
}
void h_move_injective(void) {      /* two ordinary/promotion moves with different fields have different encodings */
  uint32_t f1 = nondet_u32() & 63, t1 = nondet_u32() & 63, k1 = nondet_u32() % 6, f2 = nondet_u32() & 63, t2 = nondet_u32() & 63, k2 = nondet_u32() % 6;
  __CPROVER_assume(k1 != 1 && k2 != 1);
  uint32_t a = _ZN6engine16create_promotionENS_6SquareES0_NS_9PieceKindE(f1, t1, k1), b = _ZN6engine16create_promotionENS_6SquareES0_NS_9PieceKindE(f2, t2, k2);
  PROP((a == b) == (f1 == f2 && t1 == t2 && k1 == k2), "C16 move encoding is injective");
}
void h_moveinfo_roundtrip(void) {
  uint32_t cap = nondet_u32(), cr = nondet_u32(), ep = nondet_u32(); _Bool isep = nondet_bool(); uint8_t hm = nondet_u8();
  __CPROVER_assume(cap < 7 && cr < 16 && ep <= 64); ce_a = cap; ce_b = cr; ce_c = ep; ce_d = isep; ce_e = hm;
  uint32_t mi = _ZN6engine15create_moveinfoENS_9PieceKindENS_8CastlingENS_6SquareEbh(cap, cr, ep, isep, hm); ce_got = mi;
  PROP(_ZN6engine14captured_pieceEj(mi) == cap, "C16 move-info: captured piece");
  PROP(_ZN6engine13last_castlingEj(mi) == cr, "C16 move-info: previous castling rights");
  PROP(_ZN6engine21last_enpassant_squareEj(mi) == ep, "C16 move-info: previous en-passant square (64 = none)");
  PROP(_ZN6engine9enpassantEj(mi) == isep, "C16 move-info: en-passant flag");
  PROP(_ZN6engine17half_move_counterEj(mi) == hm, "C16 move-info: half-move clock (all 256 values)");
}
