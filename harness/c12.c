/* C12 - the engine's KPK knowledge equals the game-theoretic truth, decided by a solver-checked certificate.
   W(p)  = the engine's verdict: bitbase::check after bitbase::normalize, as compiled, on the table the real init() built.
   D     = depth-to-win witness from an independent retrograde pass (untrusted).
   For every legal position p (pawn square and side to move concrete per query, both kings symbolic):
     (1) W(p), White to move  => some legal move reaches a base-case win or a position in W with smaller D
     (2) W(p), Black to move  => Black is checkmated, or has moves, none captures the pawn, all reach W with smaller D
     (3) !W(p), White to move => no legal move is a base-case win or reaches W
     (4) !W(p), Black to move => stalemate, or some legal move captures the pawn or leaves W; never checkmate
   (1)+(2) with D well-founded: every p in W is really won.  (3)+(4): outside W Black holds the draw.
   (5) the KPK endgame evaluator, for either colour owning the pawn, reports a known win exactly on W. */
#include "eng.h"
#include "fields.h"
#include "kpk_rules.h"
typedef struct S_class_engine__Position Pos;
typedef struct S_class_engine__endgame__EndgameBase EG;
uint32_t nondet_u32(void);
#ifdef WITNESS
#define PROP(c, msg) do { __CPROVER_assert(0, "witness"); __CPROVER_assume(0); } while (0)
#else
#define PROP(c, msg) __CPROVER_assert(c, msg)
#endif
extern const uint8_t KPK_D[2][48][4096];
uint32_t ce_stm, ce_wk, ce_wp, ce_bk, ce_w, ce_d;
void _ZN6engine7bitbase9normalizeENS_5ColorERS1_RNS_6SquareES4_S4_(uint32_t, uint32_t *, uint32_t *, uint32_t *, uint32_t *);
_Bool _ZN6engine7bitbase5checkENS_5ColorENS_6SquareES2_S2_(uint32_t, uint32_t, uint32_t, uint32_t);
uint64_t _ZNK6engine7endgame12_GLOBAL__N_17EndgameILNS0_11EndgameTypeE0EE15strongSideScoreERKNS_8PositionE(void *, Pos *);

static int W(int stm, int wk, int wp, int bk) {       /* engine verdict, White owns the pawn */
  uint32_t s = stm, a = wk, b = wp, c = bk;
  _ZN6engine7bitbase9normalizeENS_5ColorERS1_RNS_6SquareES4_S4_(0, &s, &a, &b, &c);
  return _ZN6engine7bitbase5checkENS_5ColorENS_6SquareES2_S2_(s, a, b, c);
}
#define DD(stm, wk, wp, bk) KPK_D[stm][(wp) - 8][(bk) * 64 + (wk)]
static void put(Pos *p, uint32_t pc, uint32_t sq) {
  p->POS_board[sq] = pc; p->POS_piece_position[pc][p->POS_piece_count[pc]] = sq; p->POS_piece_count[pc]++;
  p->POS_by_piece_kind_bb[(pc - 1) % 6 + 1] |= 1ULL << sq; p->POS_by_color_bb[pc > 6] |= 1ULL << sq;
}
#define KNOWN_WIN_MIN 400000      /* VALUE_KNOWN_WIN is ~439k, VALUE_POSITIVE_DRAW + rank <= 17: any threshold in between separates them */

void kpk_case(int stm, int wp) {
  uint32_t wk = nondet_u32(), bk = nondet_u32();
  __CPROVER_assume(wk < 64 && bk < 64);
  KP p = {(uint8_t)stm, (uint8_t)wk, (uint8_t)wp, (uint8_t)bk};
  __CPROVER_assume(kp_legal(p));
  ce_stm = stm; ce_wk = wk; ce_wp = wp; ce_bk = bk;
  int w = W(stm, wk, wp, bk); int d = DD(stm, wk, wp, bk);
  ce_w = w; ce_d = d;
  PROP(!w || d != 255, "C12 certificate: a position the engine calls won has a finite depth-to-win witness");
  if (stm == 0) {
    int good = 0, anywin = 0;           /* good: progress move exists; anywin: some move reaches W or a base-case win */
    if (kp_promo_wins(p)) { good = 1; anywin = 1; }
    for (int k = 0; k < 8; k++) {
      int r = (int)(wk >> 3) + KP_DR[k], f = (int)(wk & 7) + KP_DF[k];
      if (r < 0 || r > 7 || f < 0 || f > 7) continue;
      int t = r * 8 + f; if (t == wp || kp_dist(t, bk) <= 1) continue;
      if (W(1, t, wp, bk)) { anywin = 1; if (DD(1, t, wp, bk) < d) good = 1; }
    }
    if ((wp >> 3) < 6) {
      int t = wp + 8;
      if (t != (int)wk && t != (int)bk) {
        if (W(1, wk, t, bk)) { anywin = 1; if (DD(1, wk, t, bk) < d) good = 1; }
        if ((wp >> 3) == 1 && t + 8 != (int)wk && t + 8 != (int)bk && W(1, wk, t + 8, bk)) { anywin = 1; if (DD(1, wk, t + 8, bk) < d) good = 1; }
      }
    }
    if (w) PROP(good, "C12 (1) won, White to move: some legal move makes progress towards a base-case win");
    else   PROP(!anywin, "C12 (3) not won, White to move: no legal move reaches a won position (engine would call a drawn position won, or this one is really won)");
  } else {
    int n = 0, allgood = 1, escape = 0;
    for (int k = 0; k < 8; k++) {
      int r = (int)(bk >> 3) + KP_DR[k], f = (int)(bk & 7) + KP_DF[k];
      if (r < 0 || r > 7 || f < 0 || f > 7) continue;
      int t = r * 8 + f; if (kp_dist(t, wk) <= 1) continue;
      if (t != wp && kp_pawn_attacks(wp, t)) continue;
      n++;
      if (t == wp) { escape = 1; allgood = 0; continue; }
      if (!W(0, wk, wp, t)) { escape = 1; allgood = 0; }
      else if (!(DD(0, wk, wp, t) < d)) allgood = 0;
    }
    int incheck = kp_pawn_attacks(wp, bk);
    if (w) PROP(n == 0 ? incheck : allgood, "C12 (2) won, Black to move: checkmate, or every legal move stays in the won set with smaller depth");
    else   PROP(n == 0 ? !incheck : escape, "C12 (4) not won, Black to move: stalemate, or some move captures the pawn or leaves the won set");
  }
  /* (5) evaluator verdict for either colour owning the pawn */
  static Pos A, B;
  put(&A, 6, wk); put(&A, 1, wp); put(&A, 12, bk); A.POS_current_side = stm; A.POS_enpassant_square = 64;
  put(&B, 12, wk ^ 56); put(&B, 7, wp ^ 56); put(&B, 6, bk ^ 56); B.POS_current_side = 1 - stm; B.POS_enpassant_square = 64;
  static EG EW, EB;
  EW.EG_strongSide = 0; EW.EG_weakSide = 1; EW.EG_strongKing = 6; EW.EG_weakKing = 12;
  EB.EG_strongSide = 1; EB.EG_weakSide = 0; EB.EG_strongKing = 12; EB.EG_weakKing = 6;
  int64_t sa = (int64_t)_ZNK6engine7endgame12_GLOBAL__N_17EndgameILNS0_11EndgameTypeE0EE15strongSideScoreERKNS_8PositionE(&EW, &A);
  int64_t sb = (int64_t)_ZNK6engine7endgame12_GLOBAL__N_17EndgameILNS0_11EndgameTypeE0EE15strongSideScoreERKNS_8PositionE(&EB, &B);
  PROP((sa >= KNOWN_WIN_MIN) == (w != 0), "C12 (5) KPK evaluator (White owns the pawn) reports a known win exactly on the won set");
  PROP((sb >= KNOWN_WIN_MIN) == (w != 0), "C12 (5) KPK evaluator (Black owns the pawn, mirrored position) reports a known win exactly on the won set");
}
