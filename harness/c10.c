/* C10 - boundary harnesses for the fixed-size buffers (CBMC's array-bounds and pointer checks are enabled on all translated code).
   h_hist_*: Position::do_move / undo_move with the history counter anywhere in 1..800 (game of any length so far);
   h_add_piece: add_piece/remove_piece with up to ten pieces of one kind. */
#include "pos.h"
extern uint64_t _ZN6engine13CASTLING_HASHE[16];
extern uint64_t _ZN6engine14ENPASSANT_HASHE[8];
uint64_t env_piece_hash(uint64_t pc, uint64_t sq) { __CPROVER_assert(pc < 13 && sq < 64, "PIECE_HASH index in bounds"); return nondet_u64(); }
uint32_t _ZN6engine8Position7do_moveEj(Pos *, uint32_t);
void _ZN6engine8Position9undo_moveEjj(Pos *, uint32_t, uint32_t);
void _ZN6engine8Position9add_pieceENS_5PieceENS_6SquareE(Pos *, uint32_t, uint32_t);
void _ZN6engine8Position12remove_pieceENS_6SquareE(Pos *, uint32_t);
void hist_case(const uint32_t *mat, int n, uint32_t side, int32_t hc) {
  pos_build(mat, n, side, 0);
  P.POS_history_counter = hc; ce_aux = hc;      /* boundary values of the history counter are concrete per query; position and move are symbolic */
  SMove m = nondet_move(); __CPROVER_assume(s_legal(&S, m)); uint32_t mv = enc_move(m); ce_mv = mv;
  uint32_t mi = _ZN6engine8Position7do_moveEj(&P, mv);
  PROP(P.POS_history_counter >= 1 && P.POS_history_counter <= 800, "C10 history counter stays inside the buffer after a move");
  _ZN6engine8Position9undo_moveEjj(&P, mv, mi);
  PROP(P.POS_history_counter >= 0 && P.POS_history_counter <= 800, "C10 history counter stays inside the buffer after undo");
}
void h_add_piece(void) {
  uint32_t pc = nondet_u32(), sq = nondet_u32(); int32_t cnt = nondet_i32();
  __CPROVER_assume(pc >= 1 && pc <= 12 && sq < 64 && cnt >= 0 && cnt <= 9);     /* at most ten of a kind after the addition */
  for (int i = 0; i < 10; i++) if (i < cnt) { uint32_t q = nondet_u32(); __CPROVER_assume(q < 64 && q != sq); P.POS_piece_position[pc][i] = q; P.POS_board[q] = pc; }
  P.POS_piece_count[pc] = cnt; ce_aux = cnt; ce_aux2 = pc;
  _ZN6engine8Position9add_pieceENS_5PieceENS_6SquareE(&P, pc, sq);
  PROP(P.POS_piece_count[pc] == cnt + 1 && P.POS_piece_position[pc][cnt] == sq, "C10 add_piece appends inside the ten-entry list");
  _ZN6engine8Position12remove_pieceENS_6SquareE(&P, sq);
  PROP(P.POS_piece_count[pc] == cnt, "C10 remove_piece shrinks the list");
}
