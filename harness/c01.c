/* C01 - legal move generation is exact: generate_moves(P) vs the independent rules reference.
   sound+unique: every generated move is legal, canonically encoded and appears once;
   complete:     every legal move of the reference is in the generated list. */
#define STUB_SLIDERS
#include "pos.h"
uint32_t *_ZN6engine14generate_movesERKNS_8PositionENS_5ColorEPj(Pos *, uint32_t, uint32_t *);
#define MVMAX 96
static uint32_t MV[MVMAX + 8];
uint32_t ce_nmoves, ce_i, ce_j;
#define SC_EP 1        /* scenario: an en-passant square is set and a pawn of the side to move stands next to the pushed pawn */
#define SC_CASTLE 2    /* scenario: the side to move has at least one castling right */
#define SC_EPRANK 8    /* scenario (with SC_EP): king and an enemy rook/queen on the rank of the capturing and the captured pawn */
#define SC_CHECK 4     /* scenario: the side to move is in check */
static void scenario(uint32_t side, int sc) {
  if (sc & SC_EP) {
    __CPROVER_assume(S.ep != 64);
    uint32_t pawn = side ? S.ep + 8 : S.ep - 8, own = side ? 7 : 1;
    int left = (pawn & 7) > 0 && S.b[(pawn - 1) & 63] == own, right = (pawn & 7) < 7 && S.b[(pawn + 1) & 63] == own;
    __CPROVER_assume(left || right);
  }
  if (sc & SC_EPRANK) {   /* ... and the capturing side's king and an enemy rook or queen stand on the rank of the two pawns (the capture clears that rank) */
    uint32_t pawn = side ? S.ep + 8 : S.ep - 8, rk = pawn >> 3;
    __CPROVER_assume((s_king_sq(&S, side) >> 3) == rk);
    int on_rank = 0;
    for (int f = 0; f < 8; f++) { uint32_t pc = S.b[8 * rk + f]; if (pc == (side ? 4 : 10) || pc == (side ? 5 : 11)) on_rank = 1; }
    __CPROVER_assume(on_rank);
  }
  if (sc & SC_CASTLE) __CPROVER_assume(S.cr & (side ? 12 : 3));
  if (sc & SC_CHECK) __CPROVER_assume(S_ATTACKED(&S, s_king_sq(&S, side), 1 - side));
}
void sound_case(const uint32_t *mat, int n, uint32_t side, int sc) {
  pos_build(mat, n, side, 0); scenario(side, sc);
  uint32_t *end = _ZN6engine14generate_movesERKNS_8PositionENS_5ColorEPj(&P, side, MV);
  uint32_t cnt = (uint32_t)(end - MV); ce_nmoves = cnt;
  __CPROVER_assert(cnt <= MVMAX, "harness buffer large enough for the material");
  uint32_t i = nondet_u32(), j = nondet_u32();
  __CPROVER_assume(i < cnt && j < i); ce_i = i; ce_j = j;
  uint32_t v = MV[i]; ce_mv = v;
  SMove m = dec_move(v);
  PROP(v < (1u << 17) && enc_move(m) == v, "C01 generated move is canonically encoded (no stray bits)");
  PROP(s_legal(&S, m), "C01 every generated move is legal under the rules");
  PROP(MV[j] != v, "C01 no move is generated twice");
}
void complete_case(const uint32_t *mat, int n, uint32_t side, int sc) {
  pos_build(mat, n, side, 0); scenario(side, sc);
  uint32_t *end = _ZN6engine14generate_movesERKNS_8PositionENS_5ColorEPj(&P, side, MV);
  uint32_t cnt = (uint32_t)(end - MV); ce_nmoves = cnt;
  SMove m = nondet_move();
  __CPROVER_assume(s_legal(&S, m));
  uint32_t v = enc_move(m); ce_mv = v;
  int found = 0;
  for (uint32_t k = 0; k < MVMAX; k++) if (k < cnt && MV[k] == v) found = 1;
  __CPROVER_assert(cnt <= MVMAX, "harness buffer large enough for the material");
  PROP(found, "C01 every legal move is generated");
}
