/* C14 (and the general-evaluator part of C13): PositionScorer::score as compiled.
   gen_case: the position and its colour mirror are evaluated by two scorer objects whose scratch members hold ARBITRARY
   values on entry; equal results for every choice of those values mean (a) nothing is read before it is written, i.e. the
   evaluation does not depend on previously evaluated positions (C14 purity), (b) colour symmetry (C13); the value is asserted
   to be strictly inside the non-mate range and not VALUE_NONE (C14 boundedness).
   The pawn cache is switched off here (probe -> miss); its transparency is the cache_case queries. */
#define STUB_SLIDERS
#include "pos.h"
typedef struct S_class_engine__PositionScorer Scorer;
uint64_t _ZN6engine14PositionScorer5scoreERKNS_8PositionE(Scorer *, Pos *);
uint64_t _ZN6engine7endgame5scoreERKNS_8PositionE(Pos *p) { return 640002ULL; }     /* VALUE_NONE: material for which no specialised endgame applies (checked natively per material) */
#define MATE_BOUND 639960LL
int64_t ce_v1, ce_v2;
static int cache_off = 1;
#include "c14_glue.h"
static void scratch(Scorer *s) {
  s->SC_weight = nondet_u64();
  for (int c = 0; c < 2; c++) { for (int k = 0; k < 7; k++) { s->SC_attacked_by_bb[c][k] = nondet_u64(); s->SC_piece_scores[c][k].f0 = nondet_u64() >> 40; s->SC_piece_scores[c][k].f1 = nondet_u64() >> 40; }
    s->SC_attacked_by_piece[c] = nondet_u64(); s->SC_outposts_bb[c] = nondet_u64(); s->SC_blockers_for_king[c] = nondet_u64(); s->SC_snipers_for_king[c] = nondet_u64();
    s->SC_side_scores[c].f0 = nondet_u64() >> 40; s->SC_side_scores[c].f1 = nondet_u64() >> 40; }
}
void gen_case(const uint32_t *mat, int n) {
  uint32_t side = nondet_u32() & 1;
  pos_build(mat, n, side, PB_NO_EP);
  pos_mirror();
  static Scorer A, B;
  scratch(&A); scratch(&B);
  int64_t v1 = (int64_t)_ZN6engine14PositionScorer5scoreERKNS_8PositionE(&A, &P);
  int64_t v2 = (int64_t)_ZN6engine14PositionScorer5scoreERKNS_8PositionE(&B, &PM);
  ce_v1 = v1; ce_v2 = v2;
  PROP(v1 > -MATE_BOUND && v1 < MATE_BOUND, "C14 the static evaluation is strictly inside the non-mate range");
  PROP(v1 == v2, "C13/C14 the evaluation does not depend on the scorer's previous contents and equals the evaluation of the colour-mirrored position");
}

/* scratch state after setup<WHITE>/setup<BLACK> does not depend on the scratch state before: the members that the scoring functions
   read (attack sets per piece kind, combined attack set, outposts, king blockers) are fully recomputed.  Sufficient for purity, not
   necessary: a failure here is confirmed natively before it is reported. */
void _ZN6engine14PositionScorer5setupILNS_5ColorE0EEEvRKNS_8PositionE(Scorer *, Pos *);
void _ZN6engine14PositionScorer5setupILNS_5ColorE1EEEvRKNS_8PositionE(Scorer *, Pos *);
uint32_t ce_field, ce_color, ce_kind;
void setup_case(const uint32_t *mat, int n) {
  uint32_t side = nondet_u32() & 1;
  pos_build(mat, n, side, PB_NO_EP);
  static Scorer A, B;
  scratch(&A); scratch(&B);
  _ZN6engine14PositionScorer5setupILNS_5ColorE0EEEvRKNS_8PositionE(&A, &P); _ZN6engine14PositionScorer5setupILNS_5ColorE1EEEvRKNS_8PositionE(&A, &P);
  _ZN6engine14PositionScorer5setupILNS_5ColorE0EEEvRKNS_8PositionE(&B, &P); _ZN6engine14PositionScorer5setupILNS_5ColorE1EEEvRKNS_8PositionE(&B, &P);
  int same = 1;
  for (int c = 0; c < 2; c++) {
    for (int k = 1; k < 7; k++) if (A.SC_attacked_by_bb[c][k] != B.SC_attacked_by_bb[c][k]) { same = 0; ce_field = 1; ce_color = c; ce_kind = k; }
    if (A.SC_attacked_by_piece[c] != B.SC_attacked_by_piece[c]) { same = 0; ce_field = 2; ce_color = c; }
    if (A.SC_outposts_bb[c] != B.SC_outposts_bb[c]) { same = 0; ce_field = 3; ce_color = c; }
    if (A.SC_blockers_for_king[c] != B.SC_blockers_for_king[c]) { same = 0; ce_field = 4; ce_color = c; }
  }
  PROP(same, "C14 the evaluator's working sets are recomputed from the position alone (no value survives from an earlier evaluation)");
}

/* term-level colour symmetry on pawn structures (cheap: no sliders): outposts and the pawn term for White on P equal those
   for Black on the mirror P*, and vice versa */
uint64_t _ZN6engine12get_outpostsILNS_5ColorE0EEEmRKNS_8PositionE(Pos *);
uint64_t _ZN6engine12get_outpostsILNS_5ColorE1EEEmRKNS_8PositionE(Pos *);
static uint64_t flipv(uint64_t b) { uint64_t r = 0; for (int k = 0; k < 8; k++) r |= ((b >> (8 * k)) & 0xffULL) << (8 * (7 - k)); return r; }
uint64_t ce_o1, ce_o2;
void term_case(const uint32_t *mat, int n) {
  uint32_t side = nondet_u32() & 1;
  pos_build(mat, n, side, PB_NO_EP | PB_NO_CASTLING);
  pos_mirror();
  uint64_t ow = _ZN6engine12get_outpostsILNS_5ColorE0EEEmRKNS_8PositionE(&P), obm = _ZN6engine12get_outpostsILNS_5ColorE1EEEmRKNS_8PositionE(&PM);
  uint64_t ob = _ZN6engine12get_outpostsILNS_5ColorE1EEEmRKNS_8PositionE(&P), owm = _ZN6engine12get_outpostsILNS_5ColorE0EEEmRKNS_8PositionE(&PM);
  ce_o1 = ob; ce_o2 = flipv(owm);
  PROP(ow == flipv(obm) && ob == flipv(owm), "C13 outpost squares of one colour are the mirror image of the other colour's outposts in the mirrored position");
  static Scorer A, B; scratch(&A); scratch(&B);
  PAWNS_T pw = PAWNS_W(&A, &P), pbm = PAWNS_B(&B, &PM), pb = PAWNS_B(&A, &P), pwm = PAWNS_W(&B, &PM);
  ce_v1 = (int64_t)pb.f0; ce_v2 = (int64_t)pwm.f0;
  PROP(pw.f0 == pbm.f0 && pw.f1 == pbm.f1 && pb.f0 == pwm.f0 && pb.f1 == pwm.f1, "C13 the pawn-structure term is colour-symmetric");
}
