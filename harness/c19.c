/* C19 - book lookups (in-memory part): decode_move, get_random_move (weighted sampling), get_best_move.
   The std::map lookup is replaced by a harness-built std::vector<pair<Move,int>> of 1..NW entries with symbolic
   moves and weights; the random number generator by an arbitrary value. */
#include "ll2c_rt.h"
#include "fields.h"
struct S_class_engine__Position; typedef struct S_class_engine__Position Pos;
uint32_t nondet_u32(void); uint64_t nondet_u64(void);
#ifdef WITNESS
#define PROP(c, msg) do { __CPROVER_assert(0, "witness"); __CPROVER_assume(0); } while (0)
#else
#define PROP(c, msg) __CPROVER_assert(c, msg)
#endif
#ifndef NW
#define NW 4
#endif
typedef struct { uint32_t move; int32_t weight; } WM;
typedef struct { WM *start, *finish, *eos; } VEC;
static WM entries[NW]; static VEC vec; static uint64_t BOOK[1024]; static uint64_t rnd;
uint32_t ce_n, ce_w[NW], ce_m[NW], ce_pick; uint64_t ce_rnd;
/* stubs of the library surface (std::map::at, uniform_int_distribution::operator()) live in c19_stubs.c */
void *c19_vec(void) { return &vec; }
uint64_t c19_rnd(void) { return rnd; }
#include "posmin.h"
static uint32_t spec_decode(uint32_t mv, const uint32_t *board) {
  uint32_t f = mv & 63, t = (mv >> 6) & 63;
  if (f == 4 && board[4] == 6) { if (t == 7 || t == 6) return 1u << 15; if (t == 0 || t == 2) return 2u << 15; }
  if (f == 60 && board[60] == 12) { if (t == 63 || t == 62) return 1u << 15; if (t == 56 || t == 58) return 2u << 15; }
  return mv;
}
static void setup(uint32_t n) {
  ce_n = n;
  for (uint32_t i = 0; i < NW; i++) {
    uint32_t mv = nondet_u32() & 0x7fff, w = nondet_u32() & 0xffff;     /* stored moves: from/to/promotion; weights are 16-bit */
    entries[i].move = mv; entries[i].weight = (int32_t)w; ce_m[i] = mv; ce_w[i] = w;
  }
  vec.start = &entries[0]; vec.finish = &entries[0] + n; vec.eos = &entries[0] + NW;
  minimal_position();
}
void h_decode(void) {
  minimal_position();
  uint32_t mv = nondet_u32() & 0x7fff; ce_m[0] = mv;
  PROP(_ZNK6engine12PolyglotBook11decode_moveEjRKNS_8PositionE((void *)BOOK, mv, &MP) == spec_decode(mv, MB), "C19 decode_move: king e1/e8 to the rook (or g/c) square is castling, everything else unchanged");
}
void h_random(void) {
  uint32_t n = nondet_u32(); __CPROVER_assume(n >= 1 && n <= NW); setup(n);
  uint64_t total = 0; for (uint32_t i = 0; i < NW; i++) if (i < n) total += ce_w[i];
  __CPROVER_assume(total > 0);
  rnd = nondet_u64() & 0xFFFFF; ce_rnd = rnd;   /* 20-bit draw: every sample value 0..total-1 is reachable (total < 2^19); wider draws only add 64-bit divider bits */
  __CPROVER_assume(rnd < total);   /* the draw is taken below the total weight: every sample value is covered and the reference needs no divider of its own; the engine's own '%' is still executed */
  uint64_t s = rnd;
  uint32_t got = _ZNK6engine12PolyglotBook15get_random_moveEmRKNS_8PositionE((void *)BOOK, 0, &MP);
  /* the index the sample selects: prefix(i) <= s < prefix(i) + w_i */
  uint64_t pre = 0; uint32_t want = NW;
  for (uint32_t i = 0; i < NW; i++) if (i < n) { if (want == NW && s < pre + ce_w[i]) want = i; pre += ce_w[i]; }
  ce_pick = want;
  PROP(want < n && got == spec_decode(ce_m[want % NW], MB), "C19 random policy: the move whose cumulative-weight interval contains the sample (probability proportional to weight, never weight zero)");
}
void h_best(void) {
  uint32_t n = nondet_u32(); __CPROVER_assume(n >= 1 && n <= NW); setup(n);
  uint32_t got = _ZNK6engine12PolyglotBook13get_best_moveEmRKNS_8PositionE((void *)BOOK, 0, &MP);
  int ok = 0; uint32_t maxw = 0;
  for (uint32_t i = 0; i < NW; i++) if (i < n && ce_w[i] > maxw) maxw = ce_w[i];
  for (uint32_t i = 0; i < NW; i++) if (i < n && ce_w[i] == maxw && got == spec_decode(ce_m[i], MB)) ok = 1;
  PROP(ok, "C19 best policy: a recorded move of maximal weight");
}
