/* Level A of the search checks: the control code around the recursive search -- Search::Search (limits -> depth/time),
   Search::go, iter_search, check_limits, compute_search_delta, Search::stop -- executed as compiled, with
     Search::search  -> contract stub (one root search: polls the stop flag and the limits at entry exactly as the real
                        code does, may be interrupted, otherwise leaves a PV whose first move is a root move; C05/C08 Level B)
     print_info / Position::uci / iostream -> recording stubs;  steady_clock::now -> arbitrary non-decreasing instants;
     generate_moves (root list) -> 1..4 arbitrary distinct moves;  calculateTime -> arbitrary non-negative value (C20);
     init_search -> empty (zeroing loops), but it is a delivery point for the UCI thread's stop().
   The UCI thread's stop() (the real Search::stop) is delivered at a symbolic point of this schedule. */
#include "eng.h"
#include "fields.h"
#include "search_paths.h"
typedef struct S_class_engine__Search Search; typedef struct S_struct_engine__Info Info; typedef struct S_class_engine__Position Pos;
typedef struct S_struct_engine__Limits Limits; typedef struct S_class_std____cxx11__basic_string Str; typedef struct S_class_std__basic_ostream Os;
uint32_t nondet_u32(void); uint64_t nondet_u64(void); int32_t nondet_i32(void); int64_t nondet_i64(void); _Bool nondet_bool(void);
#ifdef WITNESS
#define PROP(c, msg) do { __CPROVER_assert(0, "witness"); __CPROVER_assume(0); } while (0)
#else
#define PROP(c, msg) __CPROVER_assert(c, msg)
#endif
#define VALUE_INFINITE 640001LL
#define VALUE_MATE 640000LL
#ifndef DMAX
#define DMAX 4
#endif
#ifndef ITER_MAX
#define ITER_MAX 3
#endif
#ifndef RESEARCH_MAX
#define RESEARCH_MAX 2
#endif
static Search SE; static Pos POS; static Limits LIM; static uint64_t SCORER_MEM[8], TT_MEM[8];
static uint32_t RM[4], nroot;
static int stop_point, stop_delivered, completed_after_stop, n_search, n_print, last_depth, uci_calls, research_in_iter, cur_iter_depth;
static uint32_t uci_move; static int64_t clk; static int deep_mode;
int32_t ce_depth, ce_movetime, ce_infinite, ce_tleft, ce_nroot, ce_stop_point, ce_uci_calls, ce_nsearch, ce_nprint, ce_completed_after_stop, ce_smn; int64_t ce_nodes; uint32_t ce_uci_move, ce_rm[4];

void _ZN6engine6Search4stopEv(Search *);
_Bool _ZN6engine6Search12check_limitsEv(Search *);
static void deliver_stop(void) { _ZN6engine6Search4stopEv(&SE); stop_delivered = 1; }
static int is_root_move(uint32_t mv) { int ok = 0; for (uint32_t i = 0; i < 4; i++) if (i < nroot && RM[i] == mv) ok = 1; return ok; }

#ifdef LL2C_FP_ABSTRACT
/* the only floating-point code of the control layer computes the aspiration half-width delta; for the properties checked here
   any non-negative finite value will do (termination of the aspiration loop, which needs the real growth, is a query of its own) */
double nondet_double(void);
static double absfp(void) { double r = nondet_double(); __CPROVER_assume(r >= 0.0 && r <= 1e9); return r; }
double ll2c_abs_fadd(double a, double b) { return absfp(); }
double ll2c_abs_fsub(double a, double b) { return absfp(); }
double ll2c_abs_fmul(double a, double b) { return absfp(); }
double ll2c_abs_fdiv(double a, double b) { return absfp(); }
#endif
/* ---- stubs ---- */
void _ZN6engine6Search11init_searchEv(Search *s) { if (stop_point == 1) deliver_stop(); }
uint64_t _ZNSt6chrono3_V212steady_clock3nowEv(void) {
  if (stop_point == 2 && !stop_delivered) deliver_stop();
  { static int n_clk; if (stop_point == 140 + n_clk && !stop_delivered) deliver_stop(); n_clk++; }    /* ... or at any later clock read (between iterations) */
  int64_t d = nondet_i64(); __CPROVER_assume(d >= 0 && d <= 4000000000000000LL); clk += d; return (uint64_t)clk;
}
uint32_t *_ZN6engine14generate_movesERKNS_8PositionENS_5ColorEPj(Pos *p, uint32_t side, uint32_t *list) {
  uint32_t k = nondet_u32(); __CPROVER_assume(k >= 1 && k <= 4);
  for (uint32_t i = 0; i < 4; i++) if (i < k) { uint32_t mv = nondet_u32() & 0x1ffff; __CPROVER_assume(mv != 0); for (uint32_t j = 0; j < i; j++) __CPROVER_assume(list[j] != mv); list[i] = mv; }
  return list + k;
}
uint64_t _ZN6engine11TimeManager13calculateTimeERKNS_6LimitsENS_5ColorEi(Limits *l, uint32_t side, uint32_t ply) { int64_t t = nondet_i64(); __CPROVER_assume(t >= 0 && t <= 86400000); return (uint64_t)t; }
/* std::vector<Move>::insert(pos, first, last) on the (empty) root list: copies [first, last) */
#define ROOTVEC SE.SRCH_root_moves VECPATH
static uint32_t *do_insert(const uint32_t *first, const uint32_t *last) {
  int64_t n = last - first; __CPROVER_assert(n >= 0 && n <= 4, "root list within the harness bound"); nroot = (uint32_t)n;
  for (uint32_t i = 0; i < 4; i++) if (i < nroot) RM[i] = first[i];
  ROOTVEC.f0 = &RM[0]; ROOTVEC.f1 = &RM[0] + nroot; ROOTVEC.f2 = &RM[0] + 4;
  return &RM[0];
}
#include "search_glue.h"      /* stubs whose parameter types carry compiler-numbered names: generated from the prototypes of eng.h */

uint64_t _ZN6engine6Search6searchERNS_8PositionEillPNS_4InfoE(Search *s, Pos *p, uint32_t depth, uint64_t alpha, uint64_t beta, Info *info) {
  int k = n_search++;
  __CPROVER_assert(s == &SE && info == &SE.SRCH_stack_info.f0[1], "root search is called on the search object with stack slot 1");
  __CPROVER_assert((int32_t)depth >= 1 && (int32_t)depth == SE.SRCH_current_depth, "root search depth is the iteration number");
  if ((int32_t)depth != cur_iter_depth) { cur_iter_depth = (int32_t)depth; research_in_iter = 0; } else research_in_iter++;
  if (stop_point == 3 + k && !stop_delivered) deliver_stop();       /* stop arrives just before this node visit */
  /* entry of search(): if (stop_search || check_limits()) { stop_search = true; return 0; } */
  if (STOPFLAG || _ZN6engine6Search12check_limitsEv(&SE)) { STOPFLAG = 1; return 0; }
  if (stop_delivered) completed_after_stop++;                          /* a node was searched although stop() had already returned */
  if (deep_mode) {   /* buffer-boundary query: every iteration completes at once with a fixed PV; only the iteration count matters */
    if ((int32_t)depth > ITER_MAX) { STOPFLAG = 1; return 0; }
    info->INFO_pv_list.f0[0] = RM[0]; info->INFO_pv_list_length = 1; return 0;
  }
  uint64_t visited = nondet_u64(); __CPROVER_assume(visited <= (1ULL << 40)); SE.SRCH_stats.f0 += visited;
  _Bool interrupted = nondet_bool();
  if ((int32_t)depth > ITER_MAX) interrupted = 1;   /* bound of this query: at most ITER_MAX iterations complete (then the budget expires or a stop arrives) */
  if (interrupted) {   /* interrupted at a deeper node visit: limits expired there, or the stop arrived meanwhile */
    if (stop_point == 100 + k && !stop_delivered) deliver_stop();
    STOPFLAG = 1; return 0;
  }
  /* completed: PV whose first move was searched at the root, value strictly inside the infinite bounds */
  uint32_t idx = nondet_u32(); __CPROVER_assume(idx < nroot);
  uint32_t len = nondet_u32(); __CPROVER_assume(len >= 1 && len <= 8);
  info->INFO_pv_list.f0[0] = RM[idx]; info->INFO_pv_list_length = len;
  int64_t v = nondet_i64(); __CPROVER_assume(v >= -VALUE_MATE && v <= VALUE_MATE);
  /* bound on aspiration re-searches per iteration in this query (termination of that loop is a query of its own) */
  if (research_in_iter >= RESEARCH_MAX) __CPROVER_assume(v > (int64_t)alpha && v < (int64_t)beta);
  return (uint64_t)v;
}
void _ZN6engine6Search10print_infoElilPNS_4InfoE(Search *s, uint64_t result, uint32_t depth, uint64_t elapsed, Info *info) {
  if (stop_point == 160 + n_print && !stop_delivered) deliver_stop();   /* stop arrives while the search thread prints the info line (between the flag's reads in iter_search) */
  n_print++;
  PROP((int32_t)depth == last_depth + 1, "C09 iterations are reported consecutively 1,2,...");
  last_depth = (int32_t)depth;
  if (LIM.LIM_depth > 0 && !LIM.LIM_infinite) PROP((int32_t)depth <= LIM.LIM_depth, "C09 no iteration deeper than the requested depth is reported");
  PROP(info->INFO_pv_list_length > 0 && is_root_move(info->INFO_pv_list.f0[0]), "C05 every reported pv starts with a legal root move");
}
void _ZNK6engine8Position3uciB5cxx11Ej(Str *out, Pos *p, uint32_t mv) { uci_calls++; uci_move = mv; }
Os *_ZlsRSo8SyncCout(Os *o, uint32_t x) { return o; }
Os *_ZStlsISt11char_traitsIcEERSt13basic_ostreamIcT_ES5_PKc(Os *o, uint8_t *s) { return o; }
Os *_ZStlsIcSt11char_traitsIcESaIcEERSt13basic_ostreamIT_T0_ES7_RKNSt7__cxx1112basic_stringIS4_S5_T1_EE(Os *o, Str *s) { return o; }
void _ZNSt7__cxx1112basic_stringIcSt11char_traitsIcESaIcEED2Ev(Str *s) { }
void _ZdlPv(uint8_t *p) { }

void _ZN6engine6SearchC2ERKNS_8PositionERKNS_6LimitsERNS_14PositionScorerERNS_7HashMapImNS_2tt7TTEntryELm4194304EEE(Search *, Pos *, Limits *, void *, void *);
void _ZN6engine6Search2goEv(Search *);

static void setup_limits(void) {
  int32_t d = nondet_i32(), mt = nondet_i32(), tl = nondet_i32(), ti = nondet_i32(), mtg = nondet_i32(), smn = nondet_i32(); int64_t nodes = nondet_i64(); _Bool inf = nondet_bool();
  __CPROVER_assume(d >= 0 && d <= DMAX && mt >= 0 && mt <= 3600000 && tl >= -1000 && tl <= 86400000 && ti >= 0 && ti <= 600000 && mtg >= 0 && mtg <= 200 && nodes >= 0 && smn >= 0 && smn <= 4);
  LIM.LIM_depth = d; LIM.LIM_movetime = mt; LIM.LIM_infinite = inf; LIM.LIM_nodes = nodes; LIM.LIM_movestogo = mtg; LIM.LIM_searchmovesnum = smn;
  LIM.LIM_timeleft[0] = tl; LIM.LIM_timeleft[1] = nondet_i32(); LIM.LIM_timeinc[0] = ti; LIM.LIM_timeinc[1] = nondet_i32();
  for (int i = 0; i < 4; i++) if (i < smn) { uint32_t mv = nondet_u32() & 0x1ffff; __CPROVER_assume(mv != 0); for (int j = 0; j < i; j++) __CPROVER_assume(LIM.LIM_searchmoves[j] != mv); LIM.LIM_searchmoves[i] = mv; }
  ce_depth = d; ce_movetime = mt; ce_infinite = inf; ce_tleft = tl; ce_nodes = nodes; ce_smn = smn;
}
static void go_case(int mode) {
  deep_mode = (mode == 3);
  setup_limits();
  stop_point = nondet_i32(); __CPROVER_assume(stop_point >= 0 && stop_point <= 200); ce_stop_point = stop_point;
  if (mode == 0) __CPROVER_assume(stop_point == 0 && LIM.LIM_searchmovesnum == 0);   /* limits only */
  if (mode == 1) __CPROVER_assume(stop_point >= 1);                                    /* a stop is delivered */
  if (mode == 2) __CPROVER_assume(LIM.LIM_searchmovesnum >= 1);                        /* searchmoves given */
  if (mode == 3) __CPROVER_assume(stop_point == 0 && LIM.LIM_searchmovesnum == 0 && LIM.LIM_depth >= 41 && !LIM.LIM_infinite);   /* depth limits above the internal maximum */
  _ZN6engine6SearchC2ERKNS_8PositionERKNS_6LimitsERNS_14PositionScorerERNS_7HashMapImNS_2tt7TTEntryELm4194304EEE(&SE, &POS, &LIM, SCORER_MEM, TT_MEM);
  ce_nroot = nroot; for (int i = 0; i < 4; i++) ce_rm[i] = RM[i];
  __CPROVER_assert(nroot >= 1, "harness: at least one legal root move");
  if (LIM.LIM_searchmovesnum > 0) { int same = LIM.LIM_searchmovesnum == (int32_t)nroot; for (int i = 0; i < 4; i++) if (i < LIM.LIM_searchmovesnum && RM[i] != LIM.LIM_searchmoves[i]) same = 0;
    PROP(same, "C09 with searchmoves the root list is exactly the given moves"); }
  _ZN6engine6Search2goEv(&SE);
  ce_uci_calls = uci_calls; ce_uci_move = uci_move; ce_nsearch = n_search; ce_nprint = n_print; ce_completed_after_stop = completed_after_stop;
  PROP(uci_calls == 1, "C05 go is answered by exactly one bestmove");
  PROP(is_root_move(uci_move), "C05 bestmove is a legal root move (one of searchmoves when given)");
  PROP(completed_after_stop == 0, "C06 once stop() has returned no further node is searched before bestmove (a stop is never lost)");
  if (LIM.LIM_depth > 0 && !LIM.LIM_infinite) PROP(last_depth <= LIM.LIM_depth, "C09 bestmove no later than the completion of iteration d");
}
void h_go_limits(void) { go_case(0); }
void h_go_stop(void) { go_case(1); }
void h_go_searchmoves(void) { go_case(2); }
void h_go_deep(void) { go_case(3); }
#ifdef BISECT
void t_ctor(void) { setup_limits(); _ZN6engine6SearchC2ERKNS_8PositionERKNS_6LimitsERNS_14PositionScorerERNS_7HashMapImNS_2tt7TTEntryELm4194304EEE(&SE, &POS, &LIM, SCORER_MEM, TT_MEM); __CPROVER_assert(nroot >= 1, "x"); }
void t_go(void) { /* bisect aid */ nroot = 2; RM[0] = 5; RM[1] = 9; SE.SRCH_search_depth = 2; SE.SRCH_search_time = 1000; SE.SRCH_check_limits_counter = 4096; SE.SRCH_max_nodes_searched = 1000; _ZN6engine6Search2goEv(&SE); __CPROVER_assert(uci_calls == 1, "x"); }
#endif
