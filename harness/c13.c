/* C13 - static evaluation is colour-symmetric.  Endgame part: every specialised endgame evaluator, instantiated for
   White as the strong side on P and for Black as the strong side on the mirrored position P*, gives the same score
   from the side to move's point of view (EndgameBase::score is executed through a harness-built vtable). */
#define STUB_SLIDERS
#include "pos.h"
typedef struct S_class_engine__endgame__EndgameBase EG;
int64_t ce_sw, ce_sb;
typedef _Bool (*applies_fn)(void *, Pos *);
typedef uint64_t (*score_fn)(void *, Pos *);
uint64_t _ZNK6engine7endgame11EndgameBase5scoreERKNS_8PositionE(EG *, Pos *);
static void *vt[6];
void eg_case(const uint32_t *mat, int n, applies_fn applies, score_fn strong) {
  uint32_t side = nondet_u32() & 1;
  pos_build(mat, n, side, PB_NO_CASTLING | PB_NO_EP);
  pos_mirror();
  /* vtable layout of the Itanium ABI as used by the compiled code: [applies, ~D1, ~D0, strongSideScore] from the address point */
  vt[0] = (void *)applies; vt[1] = 0; vt[2] = 0; vt[3] = (void *)strong;
  static EG W, B;
  W.f0 = (void *)&vt[0]; W.EG_strongSide = 0; W.EG_weakSide = 1; W.EG_strongKing = 6; W.EG_weakKing = 12;
  B.f0 = (void *)&vt[0]; B.EG_strongSide = 1; B.EG_weakSide = 0; B.EG_strongKing = 12; B.EG_weakKing = 6;
  _Bool aw = applies(&W, &P), ab = applies(&B, &PM), cross = applies(&B, &P);
  __CPROVER_assume(aw);         /* material chosen so that the White instance applies */
  int64_t sw = (int64_t)_ZNK6engine7endgame11EndgameBase5scoreERKNS_8PositionE(&W, &P);
  int64_t sb = (int64_t)_ZNK6engine7endgame11EndgameBase5scoreERKNS_8PositionE(&B, &PM);
  ce_sw = sw; ce_sb = sb;
  PROP(ab, "C13 endgame class applies to the mirrored position for the mirrored colour");
  PROP(!cross, "C13 never both colour instances of an endgame class apply (dispatch takes White first)");
  PROP(sw == sb, "C13 endgame evaluation of the mirrored position equals the evaluation of the position");
}
