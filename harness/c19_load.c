/* C19 - the book file reader: PolyglotBook::PolyglotBook(path, seed) as compiled, with the iostream / std::map / std::vector
   surface replaced by a model (c19_load_stubs.h, generated with the prototypes of the translation):
     file      = FLEN arbitrary bytes (0 .. NREC*16+15), or a file that cannot be opened
     read(n)   = copies min(n, rest) bytes, sets the fail state when fewer than n were available, does nothing once failed
     bool      = !failed
     map/vector= recorded: which key was indexed, which vector was reset, which (move, weight) was appended
   Claim: the appended records are exactly the complete 16-byte records of the file, in order, decoded per the Polyglot layout. */
#include "ll2c_rt.h"
#include "eng.h"
uint32_t nondet_u32(void); uint8_t nondet_u8(void); _Bool nondet_bool(void);
#ifdef WITNESS
#define PROP(c, msg) do { __CPROVER_assert(0, "witness"); __CPROVER_assume(0); } while (0)
#else
#define PROP(c, msg) __CPROVER_assert(c, msg)
#endif
#ifndef NREC
#define NREC 3
#endif
#define FMAX (NREC * 16 + 15)
static uint8_t FILEB[FMAX + 1]; static uint32_t flen, fpos; static int failed, open_ok;
static uint64_t FAKE_VT[4];                      /* vbase offset 0 at vptr[-3]: `while (stream)` converts through the virtual base */
typedef struct { uint64_t key; uint32_t move; int32_t weight; } Rec;
#define NOUT (NREC + 2)
static Rec OUT[NOUT]; static int n_out, dropped; static uint64_t cur_key;
static uint64_t SEEN[NOUT]; static int n_seen;
static struct S_struct_std___Rb_tree_node_base NODES[NOUT + 1];    /* NODES[NOUT] = end() */
static struct S_class_std__vector VEC;
uint32_t ce_flen, ce_open, ce_nout; uint8_t ce_file[FMAX + 1];
static int seen_idx(uint64_t k) { int r = NOUT; for (int i = 0; i < NOUT; i++) if (i < n_seen && SEEN[i] == k && r == NOUT) r = i; return r; }
#include "c19_load_stubs.h"
static uint64_t be(const uint8_t *p, int n) { uint64_t v = 0; for (int i = 0; i < n; i++) v = (v << 8) | p[i]; return v; }
void h_load(void) {
  flen = nondet_u32(); __CPROVER_assume(flen <= FMAX); ce_flen = flen;
  open_ok = nondet_bool(); ce_open = open_ok;
  for (int i = 0; i < FMAX; i++) { FILEB[i] = nondet_u8(); ce_file[i] = FILEB[i]; }
  static struct S_class_engine__PolyglotBook BOOK; static struct S_class_std____cxx11__basic_string PATH;
  LOADER(&BOOK, &PATH, 1);
  uint32_t want = open_ok ? flen / 16 : 0;
  ce_nout = n_out;
  PROP((uint32_t)n_out == want, "C19 the loaded book holds exactly the complete 16-byte records of the file: none dropped, duplicated or invented (also empty, truncated, unreadable files)");
  PROP(!dropped, "C19 no recorded move is dropped by resetting the vector of a key that already has entries");
  for (uint32_t i = 0; i < NREC; i++) if (i < want && i < (uint32_t)n_out) {
    const uint8_t *e = &FILEB[16 * i];
    uint32_t mc = (uint32_t)be(e + 8, 2), from = ((mc >> 9) & 7) * 8 + ((mc >> 6) & 7), to = ((mc >> 3) & 7) * 8 + (mc & 7), pc = (mc >> 12) & 7;
    uint32_t mv = (pc ? (pc + 1) << 12 : 0) | (to << 6) | from;
    PROP(OUT[i].key == be(e, 8) && OUT[i].move == mv && OUT[i].weight == (int32_t)be(e + 10, 2), "C19 record i of the book is record i of the file: big-endian key, move fields (promotion piece = code + 1) and weight");
  }
}
