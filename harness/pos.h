/* Symbolic legal position shared by the position-level harnesses (C01-C04, C07, C13-C16, C18).
   Material (the piece codes) is concrete per harness function; squares, castling rights, en-passant square and
   clocks are symbolic.  The engine object P and the mailbox reference S are built to describe the same position;
   P satisfies the representation invariant RI (board, piece lists, counts and bitboards agree). */
#ifndef POS_H
#define POS_H
#include "eng.h"
#include "fields.h"
#include "chess_spec.h"
typedef struct S_class_engine__Position Pos;
uint64_t nondet_u64(void); uint32_t nondet_u32(void); uint8_t nondet_u8(void); int32_t nondet_i32(void);
#ifdef WITNESS
#define PROP(c, msg) do { __CPROVER_assert(0, "witness"); __CPROVER_assume(0); } while (0)
#else
#define PROP(c, msg) __CPROVER_assert(c, msg)
#endif
#ifndef NPMAX
#define NPMAX 8
#endif
static Pos P; static SBoard S;
/* counterexample read-out */
uint32_t ce_n, ce_pc[NPMAX], ce_sq[NPMAX], ce_side, ce_cr, ce_ep, ce_hm, ce_ply, ce_mv, ce_aux, ce_aux2;
uint64_t ce_got, ce_want;

/* contract of slider_attack<> (proved by C11 for every square and occupancy): occluded ray walk */
static uint64_t fill7(uint64_t g, uint64_t pro, int sh, uint64_t wrap) {
  uint64_t a = 0;
  for (int i = 0; i < 7; i++) { g = (sh > 0 ? (g << sh) : (g >> -sh)) & wrap; a |= g; g &= pro; }
  return a;
}
#define NOT_A 0xfefefefefefefefeULL
#define NOT_H 0x7f7f7f7f7f7f7f7fULL
static uint64_t contract_slider(uint32_t sq, uint64_t occ, int rook, int bishop) {
  uint64_t s = 1ULL << (sq & 63), e = ~occ, a = 0;
  if (rook)   a |= fill7(s, e, 8, ~0ULL) | fill7(s, e, -8, ~0ULL) | fill7(s, e, 1, NOT_A) | fill7(s, e, -1, NOT_H);
  if (bishop) a |= fill7(s, e, 9, NOT_A) | fill7(s, e, 7, NOT_H) | fill7(s, e, -7, NOT_A) | fill7(s, e, -9, NOT_H);
  return a;
}
#ifdef STUB_SLIDERS
uint64_t _ZN6engine13slider_attackILNS_9PieceKindE3EEEmNS_6SquareEm(uint32_t sq, uint64_t occ) { return contract_slider(sq, occ, 0, 1); }
uint64_t _ZN6engine13slider_attackILNS_9PieceKindE4EEEmNS_6SquareEm(uint32_t sq, uint64_t occ) { return contract_slider(sq, occ, 1, 0); }
uint64_t _ZN6engine13slider_attackILNS_9PieceKindE5EEEmNS_6SquareEm(uint32_t sq, uint64_t occ) { return contract_slider(sq, occ, 1, 1); }
#endif

static void pos_put(Pos *p, uint32_t pc, uint32_t sq) {
  p->POS_board[sq] = pc;
  p->POS_piece_position[pc][p->POS_piece_count[pc]] = sq; p->POS_piece_count[pc]++;
  p->POS_by_piece_kind_bb[(pc - 1) % 6 + 1] |= 1ULL << sq;
  p->POS_by_color_bb[pc > 6] |= 1ULL << sq;
}

/* mat[0] must be 6 (white king), mat[1] 12 (black king); n <= NPMAX.  flags: */
#define PB_NO_CASTLING 1   /* rights fixed to none */
#define PB_NO_EP 2         /* en-passant square fixed to none */
static void pos_build(const uint32_t *mat, int n, uint32_t side, int flags) {
  ce_n = n; ce_side = side;
  for (int i = 0; i < 64; i++) S.b[i] = 0;
  for (int i = 0; i < n; i++) {
    uint32_t pc = mat[i], sq = nondet_u32();
    __CPROVER_assume(sq < 64);
    __CPROVER_assume(P.POS_board[sq] == 0);
    if (pc == 1 || pc == 7) __CPROVER_assume(sq >= 8 && sq < 56);
    ce_pc[i] = pc; ce_sq[i] = sq;
    pos_put(&P, pc, sq); S.b[sq] = pc;
  }
  P.POS_current_side = side; S.side = side;
  uint32_t cr = (flags & PB_NO_CASTLING) ? 0 : (nondet_u32() & 15);
  if (cr & 1) __CPROVER_assume(P.POS_board[4] == 6 && P.POS_board[7] == 4);
  if (cr & 2) __CPROVER_assume(P.POS_board[4] == 6 && P.POS_board[0] == 4);
  if (cr & 4) __CPROVER_assume(P.POS_board[60] == 12 && P.POS_board[63] == 10);
  if (cr & 8) __CPROVER_assume(P.POS_board[60] == 12 && P.POS_board[56] == 10);
  P.POS_castling_rights = cr; S.cr = cr; ce_cr = cr;
  uint32_t ep = (flags & PB_NO_EP) ? 64 : nondet_u32();
  if (ep != 64) {
    __CPROVER_assume(ep < 64);
    if (side == 0) __CPROVER_assume((ep >> 3) == 5 && P.POS_board[ep - 8] == 7 && P.POS_board[ep] == 0 && P.POS_board[ep + 8] == 0);
    else           __CPROVER_assume((ep >> 3) == 2 && P.POS_board[ep + 8] == 1 && P.POS_board[ep] == 0 && P.POS_board[ep - 8] == 0);
  }
  P.POS_enpassant_square = ep; S.ep = ep; ce_ep = ep;
  P.POS_history_counter = 1;
  P.POS_ply_counter = 1;
  /* one-ply retro-legality: the side that just moved is not in check (this also keeps the kings apart) ... */
  __CPROVER_assume(!S_ATTACKED(&S, s_king_sq(&S, 1 - side), side));
  /* ... and the double push that created the en-passant square was itself legal: with the pawn back on its
     origin square the side now to move was not in check (it was the opponent's turn then) */
  if (ep != 64) {
    SBoard B = S;
    int cur = side == 0 ? ep - 8 : ep + 8, org = side == 0 ? ep + 8 : ep - 8;
    B.b[org] = B.b[cur]; B.b[cur] = 0;
    __CPROVER_assume(!S_ATTACKED(&B, s_king_sq(&B, side), 1 - side));
  }
}
static uint32_t enc_move(SMove m) { return m.castle ? ((uint32_t)m.castle << 15) : ((uint32_t)m.promo << 12 | (uint32_t)m.to << 6 | m.from); }
static SMove dec_move(uint32_t v) { SMove m; m.castle = (v >> 15) & 3; m.from = v & 63; m.to = (v >> 6) & 63; m.promo = (v >> 12) & 7; return m; }
/* colour-mirrored copy of the position just built by pos_build: ranks flipped, colours, castling rights,
   en-passant square and side to move swapped.  Piece lists are filled in the same material order. */
static Pos PM; static SBoard SM;
static void pos_mirror(void) {
  for (int i = 0; i < 64; i++) SM.b[i] = 0;
  for (int i = 0; i < NPMAX; i++) if (i < (int)ce_n) {
    uint32_t pc = ce_pc[i] > 6 ? ce_pc[i] - 6 : ce_pc[i] + 6, sq = ce_sq[i] ^ 56;
    pos_put(&PM, pc, sq); SM.b[sq] = pc;
  }
  PM.POS_current_side = 1 - ce_side; SM.side = 1 - ce_side;
  uint32_t cr = ((ce_cr & 3) << 2) | ((ce_cr >> 2) & 3);
  PM.POS_castling_rights = cr; SM.cr = cr;
  uint32_t ep = ce_ep == 64 ? 64 : (ce_ep ^ 56);
  PM.POS_enpassant_square = ep; SM.ep = ep;
  PM.POS_history_counter = 1; PM.POS_ply_counter = 1;
}
static SMove nondet_move(void) {
  SMove m; m.from = nondet_u8(); m.to = nondet_u8(); m.promo = nondet_u8(); m.castle = nondet_u8();
  __CPROVER_assume(m.from < 64 && m.to < 64 && m.promo < 8 && m.castle < 3);
  return m;
}
#endif
