/* One-step make/unmake harness shared by C02, C03 and C04 (select with -DCHECK_C02 / -DCHECK_C03 / -DCHECK_C04).
   Pre-state: arbitrary legal position of the given material satisfying RI; move: arbitrary move that is legal in
   the mailbox reference (no engine move generator involved). */
#include "pos.h"
#ifndef HC
#define HC 3
#endif
extern uint64_t _ZN6engine10PIECE_HASHE[13][64];
extern uint64_t _ZN6engine13CASTLING_HASHE[16];
extern uint64_t _ZN6engine14ENPASSANT_HASHE[8];
extern uint64_t _ZN6engine9SIDE_HASHE;
#define HKEY P.POS_zobrist_hash
static uint64_t k0, k1, k2, k3, k4; static uint32_t hm0, ply0;

static void zobrist_tables_arbitrary(void) {
  for (int a = 0; a < 13; a++) for (int b = 0; b < 64; b++) _ZN6engine10PIECE_HASHE[a][b] = nondet_u64();
  for (int a = 0; a < 16; a++) _ZN6engine13CASTLING_HASHE[a] = nondet_u64();
  for (int a = 0; a < 8; a++) _ZN6engine14ENPASSANT_HASHE[a] = nondet_u64();
  _ZN6engine9SIDE_HASHE = nondet_u64();
}
static void pre_state(const uint32_t *mat, int n, uint32_t side) {
  pos_build(mat, n, side, 0);
  zobrist_tables_arbitrary();
  uint8_t hm = nondet_u8(); __CPROVER_assume(hm <= 150); P.POS_half_move_counter = hm; hm0 = hm; ce_hm = hm;
  uint32_t ply = nondet_u32(); __CPROVER_assume(ply >= 1 && ply < 100000); P.POS_ply_counter = ply; ply0 = ply; ce_ply = ply;
  P.POS_history_counter = HC;
  /* key components: piece/pawn/side parts arbitrary (only their change is checked: induction step), ep and castling
     parts as RI prescribes */
  k0 = nondet_u64(); k1 = nondet_u64(); k4 = nondet_u64();
  k2 = (P.POS_enpassant_square == 64) ? 0 : _ZN6engine14ENPASSANT_HASHE[P.POS_enpassant_square & 7];
  k3 = _ZN6engine13CASTLING_HASHE[P.POS_castling_rights];
  HKEY.HK_piece_key = k0; HKEY.HK_pawn_key = k1; HKEY.HK_enpassant_key = k2; HKEY.HK_castling_key = k3; HKEY.HK_color_key = k4;
}
/* RI of the placement part: lists, counts and bitboards describe exactly the board T */
static void check_ri(const SBoard *T, const char *unused) {
  uint64_t kind[7] = {0}, col[2] = {0}; uint32_t cnt[13] = {0};
  for (int s = 0; s < 64; s++) if (T->b[s]) { kind[S_KIND(T->b[s])] |= 1ULL << s; col[S_COLOR(T->b[s])] |= 1ULL << s; cnt[T->b[s]]++; }
  for (int k = 1; k < 7; k++) PROP(P.POS_by_piece_kind_bb[k] == kind[k], "RI: piece-kind bitboards match the board");
  PROP(P.POS_by_color_bb[0] == col[0] && P.POS_by_color_bb[1] == col[1], "RI: colour bitboards match the board");
  for (int pc = 1; pc < 13; pc++) {
    PROP((uint32_t)P.POS_piece_count[pc] == cnt[pc], "RI: piece counts match the board");
    uint64_t seen = 0;
    for (int i = 0; i < NPMAX; i++) if (i < (int)cnt[pc]) {
      uint32_t sq = P.POS_piece_position[pc][i];
      PROP(sq < 64 && T->b[sq & 63] == pc && !(seen >> (sq & 63) & 1), "RI: piece list entries are distinct squares holding that piece");
      seen |= 1ULL << (sq & 63);
    }
  }
}
static uint64_t xor_cells(const SBoard *A, const SBoard *B, int pawns) {
  uint64_t d = 0;
  for (int s = 0; s < 64; s++) if (A->b[s] != B->b[s]) {
    if (A->b[s] && (S_KIND(A->b[s]) == 1) == pawns) d ^= _ZN6engine10PIECE_HASHE[A->b[s]][s];
    if (B->b[s] && (S_KIND(B->b[s]) == 1) == pawns) d ^= _ZN6engine10PIECE_HASHE[B->b[s]][s];
  }
  return d;
}
static void check_keys(const SBoard *T, uint64_t side_flips) {
  PROP((HKEY.HK_piece_key ^ k0) == xor_cells(&S, T, 0), "C04 piece key changes by exactly the cells of the changed non-pawn squares");
  PROP((HKEY.HK_pawn_key ^ k1) == xor_cells(&S, T, 1), "C04 pawn key changes by exactly the cells of the changed pawn squares");
  PROP(HKEY.HK_enpassant_key == (T->ep == 64 ? 0 : _ZN6engine14ENPASSANT_HASHE[T->ep & 7]), "C04 en-passant key is that of the new en-passant file");
  PROP(HKEY.HK_castling_key == _ZN6engine13CASTLING_HASHE[T->cr], "C04 castling key is that of the new rights");
  PROP(HKEY.HK_color_key == (k4 ^ (side_flips ? _ZN6engine9SIDE_HASHE : 0)), "C04 side key toggles with the side to move");
}

void make_case(const uint32_t *mat, int n, uint32_t side) {
  pre_state(mat, n, side);
  SMove m = nondet_move();
  __CPROVER_assume(s_legal(&S, m));
  uint32_t mv = enc_move(m); ce_mv = mv;
  SBoard T; s_apply(&S, m, &T);
  uint32_t mi = _ZN6engine8Position7do_moveEj(&P, mv);
#if defined(CHECK_C02)
  for (int s = 0; s < 64; s++) PROP(P.POS_board[s] == T.b[s], "C02 piece placement after the move is what the rules prescribe");
  PROP(P.POS_current_side == T.side, "C02 side to move flips");
  PROP(P.POS_castling_rights == T.cr, "C02 castling rights after the move");
  PROP(P.POS_enpassant_square == T.ep, "C02 en-passant square after the move (set exactly after a double push)");
  int pawn = !m.castle && S_KIND(S.b[m.from]) == 1, capt = !m.castle && (S.b[m.to] != 0);
  PROP(P.POS_half_move_counter == ((pawn || capt) ? 0 : hm0 + 1), "C02 half-move clock: 0 after pawn move or capture, +1 otherwise (castling included)");
  PROP(P.POS_ply_counter == (int32_t)(ply0 + 1), "C02 ply counter advances by one");
  check_ri(&T, "");
  PROP(P.POS_history_counter == HC + 1, "C02 history grows by one entry");
#endif
#if defined(CHECK_C04)
  check_keys(&T, 1);
  PROP(P.POS_history[HC] == (HKEY.HK_piece_key ^ HKEY.HK_pawn_key ^ HKEY.HK_enpassant_key ^ HKEY.HK_castling_key ^ HKEY.HK_color_key), "C04/C07 the key pushed on the history is the key of the new position");
  if (!(pawn_or_pawn_capture(&S, m))) PROP(HKEY.HK_pawn_key == k1, "C04 pawn key unchanged by a move that moves or captures no pawn");
#endif
#if defined(CHECK_C03)
  uint64_t hist_top = P.POS_history[HC - 1];
  _ZN6engine8Position9undo_moveEjj(&P, mv, mi);
  for (int s = 0; s < 64; s++) PROP(P.POS_board[s] == S.b[s], "C03 board restored by undo");
  PROP(P.POS_current_side == S.side && P.POS_castling_rights == S.cr && P.POS_enpassant_square == S.ep, "C03 side, rights and en-passant square restored");
  PROP(P.POS_half_move_counter == hm0 && P.POS_ply_counter == (int32_t)ply0, "C03 clocks restored");
  PROP(P.POS_history_counter == HC && P.POS_history[HC - 1] == hist_top, "C03 history restored");
  PROP(HKEY.HK_piece_key == k0 && HKEY.HK_pawn_key == k1 && HKEY.HK_enpassant_key == k2 && HKEY.HK_castling_key == k3 && HKEY.HK_color_key == k4, "C03 all five key components restored");
  check_ri(&S, "");
#endif
}

void null_case(const uint32_t *mat, int n, uint32_t side) {
  pre_state(mat, n, side);
  /* null moves are only made when not in check */
  __CPROVER_assume(!s_attacked(&S, s_king_sq(&S, side), 1 - side));
  SBoard T = S; T.side = 1 - side; T.ep = 64;
  uint32_t mi = _ZN6engine8Position12do_null_moveEv(&P);
#if defined(CHECK_C04)
  check_keys(&T, 1);
#endif
#if defined(CHECK_C02) || defined(CHECK_C03)
  for (int s = 0; s < 64; s++) PROP(P.POS_board[s] == S.b[s], "null move leaves the placement alone");
  PROP(P.POS_current_side == T.side && P.POS_castling_rights == S.cr && P.POS_enpassant_square == 64, "null move flips the side and clears the en-passant square");
  PROP(P.POS_history_counter == HC, "null move pushes no history entry");
#endif
#if defined(CHECK_C03)
  _ZN6engine8Position14undo_null_moveEj(&P, mi);
  for (int s = 0; s < 64; s++) PROP(P.POS_board[s] == S.b[s], "C03 board unchanged by null move + undo");
  PROP(P.POS_current_side == S.side && P.POS_castling_rights == S.cr && P.POS_enpassant_square == S.ep, "C03 side, rights and en-passant square restored after null move");
  PROP(P.POS_half_move_counter == hm0 && P.POS_ply_counter == (int32_t)ply0 && P.POS_history_counter == HC, "C03 clocks and history restored after null move");
  PROP(HKEY.HK_piece_key == k0 && HKEY.HK_pawn_key == k1 && HKEY.HK_enpassant_key == k2 && HKEY.HK_castling_key == k3 && HKEY.HK_color_key == k4, "C03 all five key components restored after null move");
  check_ri(&S, "");
#endif
}
