/* One-step make/unmake harness shared by C02, C03 and C04 (select with -DCHECK_C02 / -DCHECK_C03 / -DCHECK_C04).
   Pre-state: arbitrary legal position of the given material satisfying RI; move: arbitrary move that is legal in
   the mailbox reference (no engine move generator involved). */
#include "pos.h"
#ifndef HC
#define HC 3
#endif
/* PIECE_HASH is an environment table: every read of the translated engine code is a call of env_piece_hash.
   Indicator encoding: the table is zero except for one arbitrary cell holding an arbitrary value.  The key state is
   an affine function over GF(2) of the table contents (checked syntactically on the IR on every run, see
   vlib/linearity.py), so an identity between XOR-accumulated keys holds for every table iff it holds for every
   indicator table (the value 0 covers the constant part). */
static uint32_t ind_pc, ind_sq; static uint64_t ind_v;
uint64_t env_piece_hash(uint64_t pc, uint64_t sq) {
  __CPROVER_assert(pc < 13 && sq < 64, "PIECE_HASH index in bounds");
  return (pc == ind_pc && sq == ind_sq) ? ind_v : 0;
}
extern uint64_t _ZN6engine13CASTLING_HASHE[16];
extern uint64_t _ZN6engine14ENPASSANT_HASHE[8];
extern uint64_t _ZN6engine9SIDE_HASHE;
#define HKEY P.POS_zobrist_hash
static uint64_t k0, k1, k2, k3, k4; static uint32_t hm0, ply0;

static void zobrist_tables_arbitrary(void) {
  ind_pc = nondet_u32(); ind_sq = nondet_u32(); ind_v = nondet_u64(); __CPROVER_assume(ind_pc < 13 && ind_sq < 64);
  for (int a = 0; a < 16; a++) _ZN6engine13CASTLING_HASHE[a] = nondet_u64();
  for (int a = 0; a < 8; a++) _ZN6engine14ENPASSANT_HASHE[a] = nondet_u64();
  _ZN6engine9SIDE_HASHE = nondet_u64();
}
static void pre_state(const uint32_t *mat, int n, uint32_t side) {
  pos_build(mat, n, side, 0);
  zobrist_tables_arbitrary();
  uint8_t hm = nondet_u8(); __CPROVER_assume(hm <= 150); P.POS_half_move_counter = hm; hm0 = hm; ce_hm = hm;
  uint32_t ply = nondet_u32(); __CPROVER_assume(ply >= 1 && ply < 100000); P.POS_ply_counter = ply; ply0 = ply; ce_ply = ply;
  P.POS_history_counter = HC;
  /* key components: piece/pawn/side parts arbitrary (only their change is checked: induction step), ep and castling
     parts as RI prescribes */
  k0 = nondet_u64(); k1 = nondet_u64(); k4 = nondet_u64();
  k2 = (P.POS_enpassant_square == 64) ? 0 : _ZN6engine14ENPASSANT_HASHE[P.POS_enpassant_square & 7];
  k3 = _ZN6engine13CASTLING_HASHE[P.POS_castling_rights];
  HKEY.HK_piece_key = k0; HKEY.HK_pawn_key = k1; HKEY.HK_enpassant_key = k2; HKEY.HK_castling_key = k3; HKEY.HK_color_key = k4;
}
/* RI of the placement part: lists, counts and bitboards describe exactly the board T */
static int ri_maxc = NPMAX;   /* max entries of one piece list that can be in use (material multiplicity + a promotion) */
static void check_ri(const SBoard *T, const char *unused) {
  uint64_t bb[13];
  for (int pc = 0; pc < 13; pc++) { bb[pc] = 0; for (int s = 0; s < 64; s++) if (T->b[s] == pc) bb[pc] |= 1ULL << s; }
  int okk = 1, okc = 1, okl = 1;
  for (int k = 1; k < 7; k++) if (P.POS_by_piece_kind_bb[k] != (bb[k] | bb[k + 6])) okk = 0;
  PROP(okk, "RI: piece-kind bitboards match the board");
  PROP(P.POS_by_color_bb[0] == (bb[1] | bb[2] | bb[3] | bb[4] | bb[5] | bb[6]) && P.POS_by_color_bb[1] == (bb[7] | bb[8] | bb[9] | bb[10] | bb[11] | bb[12]), "RI: colour bitboards match the board");
  for (int pc = 1; pc < 13; pc++) {
    int32_t n = P.POS_piece_count[pc];
    if (n < 0 || n > ri_maxc) okc = 0;
    uint64_t lbb = 0;
    for (int i = 0; i < NPMAX; i++) if (i < ri_maxc && i < n) {
      uint32_t sq = P.POS_piece_position[pc][i];
      if (sq >= 64) okl = 0;
      for (int j = 0; j < i; j++) if (P.POS_piece_position[pc][j] == sq) okl = 0;      /* no duplicates */
      lbb |= 1ULL << (sq & 63);
    }
    if (lbb != bb[pc]) okl = 0;      /* the list is exactly the set of squares holding that piece (so count = number of such squares) */
  }
  PROP(okc, "RI: piece counts within the possible range");
  PROP(okl, "RI: every piece list is exactly the set of squares holding that piece, without duplicates");
}
static uint64_t cell(uint32_t pc, uint32_t sq, int pawns) {
  if (pc == 0 || (S_KIND(pc) == 1) != pawns) return 0;
  return env_piece_hash(pc, sq);
}
/* XOR of the table cells of every (piece, square) pair present in exactly one of A and B.  A and B differ on at
   most the five squares in q[] (asserted separately), so only those are read from the arbitrary tables. */
static uint32_t touched[5]; static int ntouched;
static uint64_t xor_cells(const SBoard *A, const SBoard *B, int pawns) {
  uint64_t d = 0;
  for (int i = 0; i < 5; i++) if (i < ntouched) {
    uint32_t s = touched[i]; int dup = 0;
    for (int j = 0; j < i; j++) if (touched[j] == s) dup = 1;
    if (!dup && A->b[s] != B->b[s]) d ^= cell(A->b[s], s, pawns) ^ cell(B->b[s], s, pawns);
  }
  return d;
}
static void set_touched(SMove m, uint32_t side, uint32_t ep) {
  ntouched = 0;
  if (m.castle) { uint32_t r = side ? 56 : 0; touched[0] = r + 4; touched[1] = m.castle == 1 ? r + 6 : r + 2; touched[2] = m.castle == 1 ? r + 7 : r; touched[3] = m.castle == 1 ? r + 5 : r + 3; ntouched = 4; }
  else { touched[0] = m.from; touched[1] = m.to; ntouched = 2; if (ep != 64 && m.to == ep) { touched[2] = side ? ep + 8 : ep - 8; ntouched = 3; } }
}
static int only_touched_differ(const SBoard *A, const SBoard *B) {
  int ok = 1;
  for (int s = 0; s < 64; s++) { int t = 0; for (int i = 0; i < 5; i++) if (i < ntouched && touched[i] == (uint32_t)s) t = 1; if (!t && A->b[s] != B->b[s]) ok = 0; }
  return ok;
}
static int pawn_or_pawn_capture(const SBoard *A, SMove m) {
  if (m.castle) return 0;
  return S_KIND(A->b[m.from]) == 1 || S_KIND(A->b[m.to]) == 1;
}
static void check_keys(const SBoard *T, uint64_t side_flips) {
  PROP((HKEY.HK_piece_key ^ k0) == xor_cells(&S, T, 0), "C04 piece key changes by exactly the cells of the changed non-pawn squares");
  PROP((HKEY.HK_pawn_key ^ k1) == xor_cells(&S, T, 1), "C04 pawn key changes by exactly the cells of the changed pawn squares");
  PROP(HKEY.HK_enpassant_key == (T->ep == 64 ? 0 : _ZN6engine14ENPASSANT_HASHE[T->ep & 7]), "C04 en-passant key is that of the new en-passant file");
  PROP(HKEY.HK_castling_key == _ZN6engine13CASTLING_HASHE[T->cr], "C04 castling key is that of the new rights");
  PROP(HKEY.HK_color_key == (k4 ^ (side_flips ? _ZN6engine9SIDE_HASHE : 0)), "C04 side key toggles with the side to move");
}

void make_case(const uint32_t *mat, int n, uint32_t side, int maxc) {
  ri_maxc = maxc;
  pre_state(mat, n, side);
  SMove m = nondet_move();
  __CPROVER_assume(s_legal(&S, m));
  uint32_t mv = enc_move(m); ce_mv = mv;
  SBoard T; s_apply(&S, m, &T);
  set_touched(m, side, S.ep);
  uint32_t mi = _ZN6engine8Position7do_moveEj(&P, mv);
#if defined(CHECK_C02)
  { uint64_t diff = 0; for (int s = 0; s < 64; s++) if (P.POS_board[s] != T.b[s]) diff |= 1ULL << s; ce_got = diff; PROP(diff == 0, "C02 piece placement after the move is what the rules prescribe"); }
  PROP(P.POS_current_side == T.side, "C02 side to move flips");
  PROP(P.POS_castling_rights == T.cr, "C02 castling rights after the move");
  PROP(P.POS_enpassant_square == T.ep, "C02 en-passant square after the move (set exactly after a double push)");
  int pawn = !m.castle && S_KIND(S.b[m.from]) == 1, capt = !m.castle && (S.b[m.to] != 0);
  PROP(P.POS_half_move_counter == ((pawn || capt) ? 0 : hm0 + 1), "C02 half-move clock: 0 after pawn move or capture, +1 otherwise (castling included)");
  PROP(P.POS_ply_counter == (int32_t)(ply0 + 1), "C02 ply counter advances by one");
  check_ri(&T, "");
  PROP(P.POS_history_counter == HC + 1, "C02 history grows by one entry");
#endif
#if defined(CHECK_C04)
  PROP(only_touched_differ(&S, &T), "reference: a move changes only the squares it touches");
  check_keys(&T, 1);
  PROP(P.POS_history[HC] == (HKEY.HK_piece_key ^ HKEY.HK_pawn_key ^ HKEY.HK_enpassant_key ^ HKEY.HK_castling_key ^ HKEY.HK_color_key), "C04/C07 the key pushed on the history is the key of the new position");
  if (!(pawn_or_pawn_capture(&S, m))) PROP(HKEY.HK_pawn_key == k1, "C04 pawn key unchanged by a move that moves or captures no pawn");
#endif
#if defined(CHECK_C03)
  uint64_t hist_top = P.POS_history[HC - 1];
  /* between a move and its take-back a search makes and unmakes other moves: by induction those restore every piece list
     as a SET but may reorder it (remove_piece swaps with the last entry), so the take-back must work from any order */
  for (int pc = 1; pc < 13; pc++) {
    int32_t cnt = P.POS_piece_count[pc];
    if (cnt >= 2 && cnt <= ri_maxc) {
      uint32_t i = nondet_u32(), j = nondet_u32(); __CPROVER_assume(i < (uint32_t)cnt && j < (uint32_t)cnt && i < NPMAX && j < NPMAX);
      uint32_t t = P.POS_piece_position[pc][i]; P.POS_piece_position[pc][i] = P.POS_piece_position[pc][j]; P.POS_piece_position[pc][j] = t;
    }
  }
  _ZN6engine8Position9undo_moveEjj(&P, mv, mi);
  { uint64_t diff = 0; for (int s = 0; s < 64; s++) if (P.POS_board[s] != S.b[s]) diff |= 1ULL << s; ce_got = diff; PROP(diff == 0, "C03 board restored by undo"); }
  PROP(P.POS_current_side == S.side && P.POS_castling_rights == S.cr && P.POS_enpassant_square == S.ep, "C03 side, rights and en-passant square restored");
  PROP(P.POS_half_move_counter == hm0 && P.POS_ply_counter == (int32_t)ply0, "C03 clocks restored");
  PROP(P.POS_history_counter == HC && P.POS_history[HC - 1] == hist_top, "C03 history restored");
  PROP(HKEY.HK_piece_key == k0 && HKEY.HK_pawn_key == k1 && HKEY.HK_enpassant_key == k2 && HKEY.HK_castling_key == k3 && HKEY.HK_color_key == k4, "C03 all five key components restored");
  check_ri(&S, "");
#endif
}

void null_case(const uint32_t *mat, int n, uint32_t side, int maxc) {
  ri_maxc = maxc;
  pre_state(mat, n, side);
  /* null moves are only made when not in check */
  __CPROVER_assume(!S_ATTACKED(&S, s_king_sq(&S, side), 1 - side));
  SBoard T = S; T.side = 1 - side; T.ep = 64; ntouched = 0;
  uint32_t mi = _ZN6engine8Position12do_null_moveEv(&P);
#if defined(CHECK_C04)
  check_keys(&T, 1);
#endif
#if defined(CHECK_C02) || defined(CHECK_C03)
  { uint64_t diff = 0; for (int s = 0; s < 64; s++) if (P.POS_board[s] != S.b[s]) diff |= 1ULL << s; PROP(diff == 0, "null move leaves the placement alone"); }
  PROP(P.POS_current_side == T.side && P.POS_castling_rights == S.cr && P.POS_enpassant_square == 64, "null move flips the side and clears the en-passant square");
  PROP(P.POS_history_counter == HC, "null move pushes no history entry");
#endif
#if defined(CHECK_C03)
  _ZN6engine8Position14undo_null_moveEj(&P, mi);
  { uint64_t diff = 0; for (int s = 0; s < 64; s++) if (P.POS_board[s] != S.b[s]) diff |= 1ULL << s; PROP(diff == 0, "C03 board unchanged by null move + undo"); }
  PROP(P.POS_current_side == S.side && P.POS_castling_rights == S.cr && P.POS_enpassant_square == S.ep, "C03 side, rights and en-passant square restored after null move");
  PROP(P.POS_half_move_counter == hm0 && P.POS_ply_counter == (int32_t)ply0 && P.POS_history_counter == HC, "C03 clocks and history restored after null move");
  PROP(HKEY.HK_piece_key == k0 && HKEY.HK_pawn_key == k1 && HKEY.HK_enpassant_key == k2 && HKEY.HK_castling_key == k3 && HKEY.HK_color_key == k4, "C03 all five key components restored after null move");
  check_ri(&S, "");
#endif
}

/* from-scratch key (HashKey::init, called by the FEN constructor) equals the definition: XOR of the cells of all
   pieces (pawns into the pawn part), the castling cell of the rights, the en-passant cell of the file iff an
   en-passant square is set, the side cell iff Black is to move */
void init_case(const uint32_t *mat, int n, uint32_t side) {
  pos_build(mat, n, side, 0);
  zobrist_tables_arbitrary();
  static struct S_class_engine__HashKey hk;   /* zero, as the HashKey() constructor leaves it */
  _ZN6engine7HashKey4initERKNS_8PositionE(&hk, &P);
  uint32_t here = (ind_sq < 64) ? S.b[ind_sq & 63] : 0;
  int present = here == ind_pc && ind_pc != 0;
  PROP(hk.HK_piece_key == ((present && S_KIND(ind_pc) != 1) ? ind_v : 0), "C04 scratch piece key is the XOR of the non-pawn cells");
  PROP(hk.HK_pawn_key == ((present && S_KIND(ind_pc) == 1) ? ind_v : 0), "C04 scratch pawn key is the XOR of the pawn cells");
  PROP(hk.HK_castling_key == _ZN6engine13CASTLING_HASHE[S.cr], "C04 scratch castling key");
  PROP(hk.HK_enpassant_key == (S.ep == 64 ? 0 : _ZN6engine14ENPASSANT_HASHE[S.ep & 7]), "C04 scratch en-passant key");
  PROP(hk.HK_color_key == (side ? _ZN6engine9SIDE_HASHE : 0), "C04 scratch side key");
}
