/* C20 - time allocation never exceeds the clock.  Assume/guarantee decomposition (floating point is the obstacle):
   (I)  importance(x) as compiled, exp/pow by contract, precise IEEE arithmetic:            result in [0.01, 1]
   (L)  lemmas about single IEEE operations, precise:  add (a,b>=0 => r>=a, r>=b), div (0.01<=a<=b => 0<=a/b<=1),
        truncation (0<=p<=T => 0<=(long)p<=T);  the multiplication facts (0<=r<=1, x>=0 => 0<=fl(r*x)<=x; monotone in x;
        10*trunc(fl(0.7*t)) <= 7*t) are ATTEMPTED and, when the solvers do not finish, remain assumptions
   (A)  computeTimeForFixedLength as compiled, importance() by contract (I), IEEE operations by the contracts (L):
        for every movesToGo 1..200:  0 <= result <= T  and monotone in T
   (B)  calculateTime as compiled, computeTimeForFixedLength by contract (A), the 0.7*t product by the contract above:
        result >= 0, 10*result <= 7*remaining, monotone in remaining -- all clock states */
#include "eng.h"
#include "fields.h"
double nondet_double(void); uint32_t nondet_u32(void); int32_t nondet_i32(void); int64_t nondet_i64(void);
#ifdef WITNESS
#define PROP(c, msg) do { __CPROVER_assert(0, "witness"); __CPROVER_assume(0); } while (0)
#else
#define PROP(c, msg) __CPROVER_assert(c, msg)
#endif
int32_t ce_t1, ce_t2, ce_inc, ce_mtg, ce_ply, ce_side; int64_t ce_r1, ce_r2, ce_T1, ce_T2;

#ifdef PART_I
double exp(double x) { double r = nondet_double(); __CPROVER_assume(r >= 0.0 && r <= 1e300); return r; }
double pow(double b, double e) { __CPROVER_assert(b >= 1.0 && e < 0.0, "pow called with base >= 1 and negative exponent (contract domain)"); double r = nondet_double(); __CPROVER_assume(r >= 0.0 && r <= 1.0); return r; }
double _ZN6engine10importanceEd(double);
void h_importance(void) {
  double x = nondet_double(); __CPROVER_assume(x >= 0.0 && x <= 1500.0);
  double v = _ZN6engine10importanceEd(x);
  PROP(v >= 0.01 && v <= 1.0, "C20(I) importance of a move lies in [0.01, 1]");
}
#endif

#ifdef PART_L
void l_add(void) { double a = nondet_double(), b = nondet_double(); int32_t N = nondet_i32(); __CPROVER_assume(N >= 0 && N <= 1000 && a >= 0.0 && a <= (double)N && b >= 0.0 && b <= 1.0); double r = a + b, r2 = b + a;
  PROP(r >= a && r >= b && r <= (double)(N + 1) && r2 >= a && r2 >= b && r2 <= (double)(N + 1), "C20(L) IEEE addition: a in [0,N], b in [0,1] gives a sum in [max(a,b), N+1]"); }
void l_div(void) { double a = nondet_double(), b = nondet_double(); __CPROVER_assume(a >= 0.01 && a <= b && b <= 2e6); double r = a / b; PROP(r >= 0.0 && r <= 1.0, "C20(L) IEEE quotient of 0.01 <= a <= b lies in [0,1]"); }
void l_trunc(void) { double p = nondet_double(); int64_t T = nondet_i64(); __CPROVER_assume(T >= 0 && T <= 2147483647LL && p >= 0.0 && p <= (double)T); int64_t v = (int64_t)p; PROP(v >= 0 && v <= T, "C20(L) truncation of a value in [0,T] lies in [0,T]"); }
void l_mul(void) { double x = nondet_double(), r = nondet_double(); __CPROVER_assume(x >= 0.0 && x <= 2147483648.0 && r >= 0.0 && r <= 1.0); double p = r * x; PROP(p >= 0.0 && p <= x, "C20(L) IEEE product with a factor in [0,1] does not exceed the other factor"); }
void l_mono(void) { double x1 = nondet_double(), x2 = nondet_double(), r = nondet_double(); __CPROVER_assume(x1 >= 0.0 && x1 <= x2 && x2 <= 2147483648.0 && r >= 0.0 && r <= 1.0); PROP(r * x1 <= r * x2, "C20(L) IEEE multiplication is monotone"); }
void l_70(void) { int32_t t1 = nondet_i32(), t2 = nondet_i32(); __CPROVER_assume(t1 >= 0 && t1 <= t2 && t2 <= 86400000); int64_t v1 = (int64_t)(0.7 * (double)t1), v2 = (int64_t)(0.7 * (double)t2); PROP(v1 >= 0 && 10 * v1 <= 7 * (int64_t)t1 && v1 <= v2, "C20(L) trunc(0.7*t) is at most 70% of t and monotone"); }
#endif

#if defined(PART_A) || defined(PART_B)
/* contracts of single IEEE operations (LL2C_FP_ABSTRACT): results are arbitrary values satisfying the lemmas; the k-th
   operation of the second run returns what the k-th operation of the first run returned when the operands are equal */
#define MEMO 1024
static int run2;
static double m_a[4][MEMO], m_b[4][MEMO], m_r[4][MEMO]; static int m_k[4];
static double memo(int op, double a, double b, double r) {
  int k = m_k[op]++; __CPROVER_assert(k < MEMO, "memo capacity");
  if (run2 && m_a[op][k] == a && m_b[op][k] == b) return m_r[op][k];
  if (!run2) { m_a[op][k] = a; m_b[op][k] = b; m_r[op][k] = r; }
  return r;
}
/* addition: with N = number of additions made so far in this run, operands in [0,N] and [0,1] (either order) give a result
   that is >= both operands and <= N+1 (lemma l_add) -- this is what the accumulation of importances needs */
static int add_calls;
double ll2c_abs_fadd(double a, double b) {
  double r = nondet_double(); int N = add_calls++; double dn = (double)N, dn1 = (double)(N + 1);
  if (a >= 0.0 && b >= 0.0 && ((a <= dn && b <= 1.0) || (b <= dn && a <= 1.0))) __CPROVER_assume(r >= a && r >= b && r <= dn1);
  return memo(0, a, b, r);
}
double ll2c_abs_fsub(double a, double b) { return memo(1, a, b, nondet_double()); }
double ll2c_abs_fdiv(double a, double b) { double r = nondet_double(); if (a >= 0.01 && a <= b && b <= 2e6) __CPROVER_assume(r >= 0.0 && r <= 1.0); return memo(2, a, b, r); }
double ll2c_abs_fmul(double a, double b) {
  int k = m_k[3]++; __CPROVER_assert(k < MEMO, "memo capacity");
  double p = nondet_double();
  if (b == 0.7 && a != 0.7) { double t = a; a = b; b = t; }      /* the constant may be either operand */
  if (a == 0.7 && b >= 0.0 && b <= 86400000.0) {           /* Duration(0.7 * our_time): p is integer-valued with 10*p <= 7*b (assumed fact l_70; its only consumer truncates) */
    int64_t bi = (int64_t)b, v = nondet_i64(); __CPROVER_assume(v >= 0 && v <= bi); __CPROVER_assume(10 * v <= 7 * bi); p = (double)v;
    if (run2 && m_a[3][k] == a) { if (b >= m_b[3][k]) __CPROVER_assume(p >= m_r[3][k]); if (b <= m_b[3][k]) __CPROVER_assume(p <= m_r[3][k]); }
  } else if (a >= 0.0 && b >= 0.0 && a <= 1.0 && b <= 2147483648.0) { /* ratio * total */
    __CPROVER_assume(p >= 0.0 && p <= b);
    if (run2 && m_a[3][k] == a) { if (b >= m_b[3][k]) __CPROVER_assume(p >= m_r[3][k]); if (b <= m_b[3][k]) __CPROVER_assume(p <= m_r[3][k]); }
  } else if (a >= 0.0 && b >= 0.0 && b <= 1.0 && a <= 2147483648.0) { /* total * ratio */
    __CPROVER_assume(p >= 0.0 && p <= a);
    if (run2 && m_b[3][k] == b) { if (a >= m_a[3][k]) __CPROVER_assume(p >= m_r[3][k]); if (a <= m_a[3][k]) __CPROVER_assume(p <= m_r[3][k]); }
  }
  if (!run2) { m_a[3][k] = a; m_b[3][k] = b; m_r[3][k] = p; }
  return p;
}
#endif

#ifdef PART_A
/* importance() by its contract (I): a value in [0.01, 1], the same for the same argument */
static double i_x[MEMO], i_v[MEMO]; static int i_k;
double _ZN6engine10importanceEd(double x) {
  int k = i_k++; __CPROVER_assert(k < MEMO, "memo capacity");
  if (run2 && i_x[k] == x) return i_v[k];
  double v = nondet_double(); __CPROVER_assume(v >= 0.01 && v <= 1.0);
  if (!run2) { i_x[k] = x; i_v[k] = v; }
  return v;
}
void h_fixed(void) {
  int64_t T1 = nondet_i64(), T2 = nondet_i64(); int32_t ply = nondet_i32(), n = nondet_i32();
  __CPROVER_assume(0 <= T1 && T1 <= T2 && T2 <= 2147483647LL && ply >= 0 && ply <= 1000 && n >= 1 && n <= NMAX);
  ce_T1 = T1; ce_T2 = T2; ce_ply = ply; ce_mtg = n;
  int64_t r1 = (int64_t)_ZN6engine11TimeManager25computeTimeForFixedLengthElii(T1, n, ply);
  run2 = 1; i_k = 0; m_k[0] = m_k[1] = m_k[2] = m_k[3] = 0; add_calls = 0;
  int64_t r2 = (int64_t)_ZN6engine11TimeManager25computeTimeForFixedLengthElii(T2, n, ply);
  ce_r1 = r1; ce_r2 = r2;
  PROP(r1 >= 0 && r1 <= T1 && r2 >= 0 && r2 <= T2, "C20(A) fixed-length allotment lies in [0, total time]");
  PROP(r1 <= r2, "C20(A) fixed-length allotment is monotone in the total time");
}
#endif

#ifdef PART_B
/* contract stub of computeTimeForFixedLength, established by part (A) for every movesToGo 1..200 */
static int64_t c_T[256], c_r[256];
uint64_t _ZN6engine11TimeManager25computeTimeForFixedLengthElii(uint64_t T, uint32_t n, uint32_t ply) {
  int64_t t = (int64_t)T;
  __CPROVER_assert(t >= 0 && t <= 2147483647LL, "total time passed to the fixed-length routine is a non-negative int");
  __CPROVER_assert(n >= 1 && n <= (NMAX < 50 ? 50 : NMAX), "moves-to-go in the range covered by contract (A)");
  int64_t r = nondet_i64(); __CPROVER_assume(r >= 0 && r <= t);
  if (run2) { if (t >= c_T[n & 255]) __CPROVER_assume(r >= c_r[n & 255]); if (t <= c_T[n & 255]) __CPROVER_assume(r <= c_r[n & 255]); }
  else { c_T[n & 255] = t; c_r[n & 255] = r; }
  return (uint64_t)r;
}
static struct S_struct_engine__Limits L1, L2;
static int32_t bt1, bt2, binc, bmtg, bply; static uint32_t bside;
static void calc_inputs(void) {
  bside = nondet_u32() & 1;
  bt1 = nondet_i32(); bt2 = nondet_i32(); binc = nondet_i32(); bmtg = nondet_i32(); bply = nondet_i32();
  __CPROVER_assume(0 <= bt1 && bt1 <= bt2 && bt2 <= 86400000 && binc >= 0 && binc <= 600000 && bmtg >= 0 && bmtg <= NMAX && bply >= 0 && bply <= 1000);
  ce_t1 = bt1; ce_t2 = bt2; ce_inc = binc; ce_mtg = bmtg; ce_ply = bply; ce_side = bside;
  L1.LIM_timeleft[bside] = bt1; L1.LIM_timeinc[bside] = binc; L1.LIM_movestogo = bmtg;
  L2.LIM_timeleft[bside] = bt2; L2.LIM_timeinc[bside] = binc; L2.LIM_movestogo = bmtg;
  L1.LIM_timeleft[1 - bside] = nondet_i32(); L1.LIM_timeinc[1 - bside] = nondet_i32(); L2.LIM_timeleft[1 - bside] = nondet_i32(); L2.LIM_timeinc[1 - bside] = nondet_i32();
}
void h_calc_bounds(void) {      /* one clock state: non-negative and at most 70% */
  calc_inputs();
  int64_t r1 = (int64_t)_ZN6engine11TimeManager13calculateTimeERKNS_6LimitsENS_5ColorEi(&L1, bside, bply);
  ce_r1 = r1; ce_r2 = r1;
  PROP(r1 >= 0, "C20 allotted time is non-negative");
  PROP(10 * r1 <= 7 * (int64_t)bt1, "C20 allotted time is at most 70% of the remaining time");
}
void h_calc_monotone(void) {    /* two clock states differing in the remaining time only */
  calc_inputs();
  int64_t r1 = (int64_t)_ZN6engine11TimeManager13calculateTimeERKNS_6LimitsENS_5ColorEi(&L1, bside, bply);
  run2 = 1; m_k[0] = m_k[1] = m_k[2] = m_k[3] = 0; add_calls = 0;
  int64_t r2 = (int64_t)_ZN6engine11TimeManager13calculateTimeERKNS_6LimitsENS_5ColorEi(&L2, bside, bply);
  ce_r1 = r1; ce_r2 = r2;
  PROP(r1 <= r2, "C20 allotted time does not decrease when the remaining time increases");
}
#endif
