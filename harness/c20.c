/* C20 - time allocation never exceeds the clock.
   (A) computeTimeForFixedLength(T, n, ply) as compiled, libm exp/pow replaced by their contracts:
         0 <= result <= T   and   T1 <= T2  =>  result(T1) <= result(T2)          (n concrete per query)
   (B) calculateTime as compiled with computeTimeForFixedLength replaced by contract (A):
         result >= 0, 10*result <= 7*remaining, monotone in remaining              (all clock states)
   (C) calculateTime with the real computeTimeForFixedLength for small movestogo (composition sanity, no contract) */
#include "eng.h"
#include "fields.h"
double nondet_double(void); uint32_t nondet_u32(void); int32_t nondet_i32(void); int64_t nondet_i64(void);
#ifdef WITNESS
#define PROP(c, msg) do { __CPROVER_assert(0, "witness"); __CPROVER_assume(0); } while (0)
#else
#define PROP(c, msg) __CPROVER_assert(c, msg)
#endif
int32_t ce_t1, ce_t2, ce_inc, ce_mtg, ce_ply, ce_side; int64_t ce_r1, ce_r2, ce_T1, ce_T2;

/* libm contracts.  exp(x) >= 0 and finite for the arguments that occur (|x| < 250); pow(b, e) in [0,1] for b >= 1, e < 0.
   Determinism: the k-th call of the second run returns what the k-th call of the first run returned if the argument
   is the same (the two runs of a monotonicity query make the same calls in the same order). */
#define MEMO 512
static double ea[MEMO], er[MEMO], pa[MEMO], pr[MEMO]; static int ek, pk, run2;
double exp(double x) {
  __CPROVER_assert(x > -250.0 && x < 250.0, "exp argument within the range the contract covers");
  int k = ek++; __CPROVER_assert(k < MEMO, "memo capacity");
  if (run2 && ea[k] == x) return er[k];
  double r = nondet_double(); __CPROVER_assume(r >= 0.0 && r <= 1e300);
  if (!run2) { ea[k] = x; er[k] = r; }
  return r;
}
double pow(double b, double e) {
  __CPROVER_assert(b >= 1.0 && e < 0.0, "pow called with base >= 1 and negative exponent (contract domain)");
  int k = pk++; __CPROVER_assert(k < MEMO, "memo capacity");
  if (run2 && pa[k] == b) return pr[k];
  double r = nondet_double(); __CPROVER_assume(r >= 0.0 && r <= 1.0);
  if (!run2) { pa[k] = b; pr[k] = r; }
  return r;
}

#ifdef PART_A
static void fixed_case(int n) {
  int64_t T1 = nondet_i64(), T2 = nondet_i64(); int32_t ply = nondet_i32();
  __CPROVER_assume(0 <= T1 && T1 <= T2 && T2 <= 2147483647LL && ply >= 0 && ply <= 1000);
  ce_T1 = T1; ce_T2 = T2; ce_ply = ply; ce_mtg = n;
  int64_t r1 = (int64_t)_ZN6engine11TimeManager25computeTimeForFixedLengthElii(T1, n, ply);
  run2 = 1; ek = 0; pk = 0;
  int64_t r2 = (int64_t)_ZN6engine11TimeManager25computeTimeForFixedLengthElii(T2, n, ply);
  ce_r1 = r1; ce_r2 = r2;
  PROP(r1 >= 0 && r1 <= T1 && r2 >= 0 && r2 <= T2, "C20(A) fixed-length allotment lies in [0, total time]");
  PROP(r1 <= r2, "C20(A) fixed-length allotment is monotone in the total time");
}
#define FIXED(n) void h_fixed_##n(void) { fixed_case(n); }
FIXED(1) FIXED(2) FIXED(3) FIXED(4) FIXED(5) FIXED(6) FIXED(8) FIXED(10) FIXED(12) FIXED(16)
#endif

#ifdef PART_B
/* contract stub of computeTimeForFixedLength, proved by part (A) for the listed n and assumed for larger n */
static int64_t c_T[256], c_r[256]; static int brun2;
uint64_t _ZN6engine11TimeManager25computeTimeForFixedLengthElii(uint64_t T, uint32_t n, uint32_t ply) {
  int64_t t = (int64_t)T;
  __CPROVER_assert(t >= 0 && t <= 2147483647LL, "total time passed to the fixed-length routine is a non-negative int");
  __CPROVER_assert(n >= 1 && n < 256, "moves-to-go index in range");
  int64_t r = nondet_i64(); __CPROVER_assume(r >= 0 && r <= t);
  if (brun2) { if (t >= c_T[n & 255]) __CPROVER_assume(r >= c_r[n & 255]); if (t <= c_T[n & 255]) __CPROVER_assume(r <= c_r[n & 255]); }
  else { c_T[n & 255] = t; c_r[n & 255] = r; }
  return (uint64_t)r;
}
#endif
#if defined(PART_B) || defined(PART_C)
static struct S_struct_engine__Limits L1, L2;
static void calc_case(int32_t mtg_max) {
  uint32_t side = nondet_u32() & 1;
  int32_t t1 = nondet_i32(), t2 = nondet_i32(), inc = nondet_i32(), mtg = nondet_i32(), ply = nondet_i32();
  __CPROVER_assume(0 <= t1 && t1 <= t2 && t2 <= 86400000 && inc >= 0 && inc <= 600000 && mtg >= 0 && mtg <= mtg_max && ply >= 0 && ply <= 1000);
#ifdef PART_C
  __CPROVER_assume(mtg >= 1);     /* movestogo == 0 means 50 in the code under test: covered by part (B) */
#endif
  ce_t1 = t1; ce_t2 = t2; ce_inc = inc; ce_mtg = mtg; ce_ply = ply; ce_side = side;
  L1.LIM_timeleft[side] = t1; L1.LIM_timeinc[side] = inc; L1.LIM_movestogo = mtg;
  L2.LIM_timeleft[side] = t2; L2.LIM_timeinc[side] = inc; L2.LIM_movestogo = mtg;
  /* the other colour's clock is arbitrary and must not matter */
  L1.LIM_timeleft[1 - side] = nondet_i32(); L1.LIM_timeinc[1 - side] = nondet_i32(); L2.LIM_timeleft[1 - side] = nondet_i32(); L2.LIM_timeinc[1 - side] = nondet_i32();
  int64_t r1 = (int64_t)_ZN6engine11TimeManager13calculateTimeERKNS_6LimitsENS_5ColorEi(&L1, side, ply);
#ifdef PART_B
  brun2 = 1;
#else
  run2 = 1; ek = 0; pk = 0;
#endif
  int64_t r2 = (int64_t)_ZN6engine11TimeManager13calculateTimeERKNS_6LimitsENS_5ColorEi(&L2, side, ply);
  ce_r1 = r1; ce_r2 = r2;
  PROP(r1 >= 0 && r2 >= 0, "C20 allotted time is non-negative");
  PROP(10 * r1 <= 7 * (int64_t)t1 && 10 * r2 <= 7 * (int64_t)t2, "C20 allotted time is at most 70% of the remaining time");
  PROP(r1 <= r2, "C20 allotted time does not decrease when the remaining time increases");
}
#ifdef PART_B
void h_calc_contract(void) { calc_case(200); }
#else
void h_calc_real_mtg3(void) { calc_case(3); }
void h_calc_real_mtg5(void) { calc_case(5); }
#endif
#endif
