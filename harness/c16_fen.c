/* C16 - FEN round trip: Position::fen() and Position::Position(std::string) as compiled, composed.
   Library model (c16_fen_stubs.h, generated with the translation's prototypes):
     std::string          = (pointer, length) in the libstdc++ object's first two members; characters live in harness arrays
     ostringstream << c/s = appends characters to TEXT;  << number = ONE numeric token (byte 0xF0+k, value kept in NUMS[k]):
                            decimal formatting and parsing are libstdc++'s and outside the claim
     istringstream >> str = next blank-separated token of TEXT;  >> int = next token, which must be a numeric token (else 0)
     std::map<char,Piece> = linear search in the initializer array the real constructor builds (so the table itself is checked)
   Claim: for every legal position P (material per harness function), Position(P.fen()) has the same placement (board, bitboards,
   counts, piece lists as sets), side, rights, en-passant square and clocks.  Keys: the loader computes HashKey::init, which C04
   proves equal to the incremental key of equal positions; the second fen() is the same function of the compared members. */
#include "pos.h"
typedef struct S_class_std____cxx11__basic_string Str;
#ifndef TMAX
#define TMAX 48
#endif
#define NTOK 8
/* the text: characters in TEXT; its blank-separated tokens are recorded while it is written (start, length of every maximal run
   of non-blank characters), so the reader's k-th extraction is the k-th token without re-scanning */
static uint8_t TEXT[TMAX]; static uint32_t tlen, nnum, ntok, in_tok, rtok; static uint32_t tok_start[NTOK], tok_len[NTOK]; static int64_t NUMS[4]; static int overflow; static const uint8_t *RD;
static void put(uint8_t c) {
  if (tlen < TMAX) TEXT[tlen] = c; else overflow = 1;
  if (c == ' ') in_tok = 0;
  else { if (!in_tok) { if (ntok < NTOK) { tok_start[ntok] = tlen; tok_len[ntok] = 0; } else overflow = 1; ntok++; in_tok = 1; } if (ntok - 1 < NTOK) tok_len[ntok - 1]++; }
  tlen++;
}
static void next_token(uint32_t *start, uint32_t *len) {
  if (rtok < ntok && rtok < NTOK) { *start = tok_start[rtok]; *len = tok_len[rtok]; } else { *start = 0; *len = 0; }    /* extraction past the end fails: empty token */
  rtok++;
}
static uint8_t UBUF[8], EXC_OBJ[64]; static int threw;     /* the string uci() builds with +=; exception object of parse_uci's throw */
static uint64_t map_n; static uint32_t NO_PIECE_CELL;     /* MAP_INIT (pointer to the initializer array) is declared in the generated glue */
#include "c16_fen_stubs.h"
uint8_t ce_text[TMAX]; uint32_t ce_tlen, ce_ntok, ce_hm2, ce_ply2, ce_cr2, ce_ep2, ce_side2; int64_t ce_num0, ce_num1;
static void roundtrip(uint32_t side, int maxc);
/* general family: concrete material, everything else symbolic (expensive: the run-length coded board text of a fully symbolic
   placement is a hard instance; thorough tier only) */
void fen_case(const uint32_t *mat, int n, int maxc) {
  uint32_t side = nondet_u32() & 1;
  pos_build(mat, n, side, 0);
  roundtrip(side, maxc);
}
/* rank family: ARBITRARY content of one rank (each square empty or any of the 12 pieces, exactly one king of each colour), the
   other ranks empty; side, castling rights (consistent with king/rook home squares), en-passant square (consistent with a pawn
   that just made a double step) and clocks symbolic.  A superset of the legal positions of that shape. */
void fen_rank_case(int r) {
  uint32_t side = nondet_u32() & 1; int nk = 0, nkk = 0;
  ce_n = 0; ce_side = side;
  for (int f = 0; f < 8; f++) {
    uint32_t pc = nondet_u32(); __CPROVER_assume(pc <= 12);
    if (pc) { pos_put(&P, pc, 8 * r + f); ce_pc[ce_n % NPMAX] = pc; ce_sq[ce_n % NPMAX] = 8 * r + f; ce_n++; }
    nk += pc == 6; nkk += pc == 12;
  }
  __CPROVER_assume(nk == 1 && nkk == 1);
  P.POS_current_side = side;
  uint32_t cr = nondet_u32() & 15;
  if (cr & 1) __CPROVER_assume(P.POS_board[4] == 6 && P.POS_board[7] == 4);
  if (cr & 2) __CPROVER_assume(P.POS_board[4] == 6 && P.POS_board[0] == 4);
  if (cr & 4) __CPROVER_assume(P.POS_board[60] == 12 && P.POS_board[63] == 10);
  if (cr & 8) __CPROVER_assume(P.POS_board[60] == 12 && P.POS_board[56] == 10);
  P.POS_castling_rights = cr; ce_cr = cr;
  uint32_t ep = nondet_u32();
  if (ep != 64) {
    __CPROVER_assume(ep < 64);
    if (side == 0) __CPROVER_assume((ep >> 3) == 5 && P.POS_board[ep - 8] == 7); else __CPROVER_assume((ep >> 3) == 2 && P.POS_board[ep + 8] == 1);
  }
  P.POS_enpassant_square = ep; ce_ep = ep; P.POS_history_counter = 1;
  roundtrip(side, 8);
}
/* fixed-placement family: the placement is one of a few concrete ones (the board field of the text is then concrete and the
   queries are cheap); side, castling rights, en-passant square and clocks are symbolic, constrained only to be consistent with
   the placement (rights need king and rook at home, the en-passant square needs the pawn that just made the double step) */
void fen_fixed_case(const uint32_t *pcs, const uint32_t *sqs, int n) {
  uint32_t side = nondet_u32() & 1;
  ce_n = n; ce_side = side;
  for (int i = 0; i < NPMAX; i++) if (i < n) { pos_put(&P, pcs[i], sqs[i]); ce_pc[i] = pcs[i]; ce_sq[i] = sqs[i]; }
  P.POS_current_side = side;
  uint32_t cr = nondet_u32() & 15;
  if (cr & 1) __CPROVER_assume(P.POS_board[4] == 6 && P.POS_board[7] == 4);
  if (cr & 2) __CPROVER_assume(P.POS_board[4] == 6 && P.POS_board[0] == 4);
  if (cr & 4) __CPROVER_assume(P.POS_board[60] == 12 && P.POS_board[63] == 10);
  if (cr & 8) __CPROVER_assume(P.POS_board[60] == 12 && P.POS_board[56] == 10);
  P.POS_castling_rights = cr; ce_cr = cr;
  uint32_t ep = nondet_u32();
  if (ep != 64) {
    __CPROVER_assume(ep < 64);
    if (side == 0) __CPROVER_assume((ep >> 3) == 5 && P.POS_board[ep - 8] == 7 && P.POS_board[ep] == 0 && P.POS_board[ep + 8] == 0);
    else           __CPROVER_assume((ep >> 3) == 2 && P.POS_board[ep + 8] == 1 && P.POS_board[ep] == 0 && P.POS_board[ep - 8] == 0);
  }
  P.POS_enpassant_square = ep; ce_ep = ep; P.POS_history_counter = 1;
  roundtrip(side, 8);
}
static void roundtrip(uint32_t side, int maxc) {
  uint32_t hm = nondet_u32() & 255, ply = nondet_u32();
  __CPROVER_assume(ply >= 1 && ply <= 2000 && (ply & 1) == (side == 0));     /* reachable states: the ply counter is odd exactly when White is to move (constructor, do_move) */
  P.POS_half_move_counter = hm; P.POS_ply_counter = ply; ce_hm = hm; ce_ply = ply;
  static Str OUT; static Pos P2;
  FEN_WRITE(&OUT, &P);
  ce_tlen = tlen; ce_ntok = ntok; for (int i = 0; i < TMAX; i++) ce_text[i] = TEXT[i]; ce_num0 = NUMS[0]; ce_num1 = NUMS[1];
  PROP(!overflow && tlen <= TMAX && ntok == 6, "the FEN text of a position of this material fits the model's buffer and has the six FEN fields");
  FEN_READ(&P2, &OUT);
  ce_hm2 = P2.POS_half_move_counter; ce_ply2 = P2.POS_ply_counter; ce_cr2 = P2.POS_castling_rights; ce_ep2 = P2.POS_enpassant_square; ce_side2 = P2.POS_current_side;
  uint64_t diff = 0; for (int s = 0; s < 64; s++) if (P2.POS_board[s] != P.POS_board[s]) diff |= 1ULL << s; ce_got = diff;
  PROP(diff == 0, "C16 loading the printed FEN gives the same piece placement");
  PROP(P2.POS_current_side == P.POS_current_side, "C16 FEN round trip keeps the side to move");
  PROP(P2.POS_castling_rights == P.POS_castling_rights, "C16 FEN round trip keeps the castling rights");
  PROP(P2.POS_enpassant_square == P.POS_enpassant_square, "C16 FEN round trip keeps the en-passant square");
  PROP(P2.POS_half_move_counter == P.POS_half_move_counter && P2.POS_ply_counter == P.POS_ply_counter, "C16 FEN round trip keeps the half-move clock and the move number (ply counter)");
  int okb = P2.POS_by_color_bb[0] == P.POS_by_color_bb[0] && P2.POS_by_color_bb[1] == P.POS_by_color_bb[1], okl = 1;
  for (int k = 1; k < 7; k++) if (P2.POS_by_piece_kind_bb[k] != P.POS_by_piece_kind_bb[k]) okb = 0;
  for (int pc = 1; pc < 13; pc++) {
    if (P2.POS_piece_count[pc] != P.POS_piece_count[pc]) okl = 0;
    uint64_t a = 0, b = 0;
    for (int i = 0; i < NPMAX; i++) if (i < maxc && i < (int)P.POS_piece_count[pc]) { a |= 1ULL << (P.POS_piece_position[pc][i] & 63); b |= 1ULL << (P2.POS_piece_position[pc][i] & 63); if (P2.POS_piece_position[pc][i] >= 64) okl = 0; }
    if (a != b) okl = 0;
  }
  PROP(okb, "C16 the loaded position's bitboards equal the original's");
  PROP(okl, "C16 the loaded position's piece counts and piece lists (as sets) equal the original's");
  PROP(P2.POS_history_counter == 1, "C16 a loaded position starts a history of one entry");
}

/* move text round trip: Position::uci(m) then Position::parse_uci(text) in the same position, both as compiled.
   The board is ARBITRARY (any piece on any square) and the move is any encoded move of legal shape -- a superset of "legal move in
   legal position": castling codes need the mover's king on its home square; a non-castling king move covers one square (so it is
   not e1g1/e1c1/e8g8/e8c8, which the text format reserves for castling); promotion pieces are N/B/R/Q. */
uint32_t ce_txt[8], ce_txtlen, ce_mv2;
void h_uci_roundtrip(void) {
  for (int sq = 0; sq < 64; sq++) { uint32_t pc = nondet_u32(); __CPROVER_assume(pc <= 12); P.POS_board[sq] = pc; }
  uint32_t side = nondet_u32() & 1; P.POS_current_side = side; ce_side = side;
  SMove m = nondet_move();
  uint32_t mover = m.castle ? (side ? 60 : 4) : m.from, pc = P.POS_board[mover];
  __CPROVER_assume(pc != 0 && (pc > 6) == (side == 1));
  /* castling rights: arbitrary, except that a castling move is legal only while the mover still has that right (an implementation
     may consult the rights when it reads the king's two-square move) */
  uint32_t cr = nondet_u32() & 15; P.POS_castling_rights = cr; ce_cr = cr;
  if (m.castle) __CPROVER_assume(pc == (side ? 12 : 6) && m.from == 0 && m.to == 0 && m.promo == 0 && (cr & ((m.castle == 1 ? 1u : 2u) << (side ? 2 : 0))) != 0);
  else {
    __CPROVER_assume(m.from != m.to && (m.promo == 0 || (m.promo >= 2 && m.promo <= 5)));
    int df = (int)(m.from & 7) - (int)(m.to & 7), dr = (int)(m.from >> 3) - (int)(m.to >> 3);
    if (pc == 6 || pc == 12) __CPROVER_assume(df >= -1 && df <= 1 && dr >= -1 && dr <= 1 && m.promo == 0);
  }
  uint32_t mv = enc_move(m); ce_mv = mv; ce_aux = pc; ce_aux2 = mover;
  static Str OUT;
  UCI_WRITE(&OUT, &P, mv);
  ce_txtlen = (uint32_t)OUT.f1; for (int i = 0; i < 8; i++) ce_txt[i] = i < (int)OUT.f1 ? OUT.f0.f0[i] : 0;
  /* the text is long algebraic: from-square, to-square (the king's two-square move for castling), promotion letter */
  uint32_t f = m.castle ? (side ? 60 : 4) : m.from, t = m.castle ? (side ? (m.castle == 1 ? 62 : 58) : (m.castle == 1 ? 6 : 2)) : m.to;
  const char pl[6] = {0, 0, 'n', 'b', 'r', 'q'};
  int okt = !overflow && OUT.f1 == (m.promo ? 5u : 4u) && OUT.f0.f0[0] == 'a' + (f & 7) && OUT.f0.f0[1] == '1' + (f >> 3) && OUT.f0.f0[2] == 'a' + (t & 7) && OUT.f0.f0[3] == '1' + (t >> 3);
  if (m.promo) okt = okt && OUT.f0.f0[4] == pl[m.promo % 6];
  PROP(okt, "C16 uci() prints from-square, to-square (the king's two-square move for castling) and the promotion letter");
  uint32_t mv2 = UCI_READ(&P, &OUT); ce_mv2 = mv2;
  PROP(!threw && mv2 == mv, "C16 parse_uci(uci(m)) gives back m in the same position");
}
