#!/bin/bash
# development aid: run checks one after another, logging to /tmp/<id>.log
tier=${TIER:-quick}
for id in "$@"; do
  python3 /verif/run_check.py $id --tier $tier > /tmp/$(echo $id | tr A-Z a-z).log 2>&1; echo "rc=$?" >> /tmp/$(echo $id | tr A-Z a-z).log
done
