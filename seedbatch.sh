#!/bin/bash
cd /verif
for x in "$@"; do s=${x%%:*}; c=${x##*:}; ./seedtest.sh $s quick $c; done
