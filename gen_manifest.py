#!/usr/bin/env python3
"""Regenerates MANIFEST.json from the table below (kept in one place so that it is always valid)."""
import json, os
HERE = os.path.dirname(os.path.abspath(__file__))
TECH = 'bounded symbolic model checking of the real code: clang-14 IR of /repo -> C (ll2c) -> CBMC 6.11 / kissat; counterexamples replayed natively'
CHECKS = {
 'C01': dict(text='generate_moves (the whole legal move generator as compiled) is executed symbolically on positions with concrete material and symbolic squares, castling rights, '
             'en-passant square and side; the solver proves that every generated move is legal/canonical/unique and that every legal move of an independent rules reference is '
             'generated. Bound: the listed material sets and scenario families (en passant with a pinning slider, castling, check evasions).',
             note='slider_attack<> replaced by its contract (C11); tables dumped from the real init(); rules reference rt/chess_spec.h trusted; material sets outside the list are outside the claim',
             ref='DESIGN.md 2/C01'),
 'C02': dict(text='One symbolic step of Position::do_move from an arbitrary RI-state of the listed material and an arbitrary legal move is proved to produce exactly the placement, side, '
             'rights, en-passant square, half-move clock and ply the rules prescribe, and to re-establish the representation invariant (board = lists = counts = bitboards), '
             'so the result extends to move sequences of any length by induction.',
             note='base case (FEN constructor) is iostream code and not encoded; FEN text formatting not encoded; clocks bounded (hm<=150)', ref='DESIGN.md 2/C02'),
 'C03': dict(text='do_move;undo_move and do_null_move;undo_null_move from an arbitrary RI-state restore every field (board, bitboards, counts, piece lists as sets, rights, '
             'en-passant square, clocks, all five key components, history) for every legal move of the listed material; one step composes to nested sequences by induction.',
             note='piece lists compared as sets, and arbitrarily reordered between the move and its take-back (what nested make/unmake pairs may leave); evaluation/move generation after undo follow from field equality', ref='DESIGN.md 2/C03'),
 'C04': dict(text='For every Zobrist table: HashKey::init equals the definition of the key, and every do_move/do_null_move changes each key component by exactly the cells of what '
             'changed (pawn part only for pawns), hence incremental key = scratch key on every history (induction) and equal positions have equal keys.',
             note='PIECE_HASH via indicator encoding justified by a syntactic XOR-linearity check on the IR; collision odds of random tables outside the claim', ref='DESIGN.md 2/C04'),
 'C05': dict(text='Level A: Search::Search (limits -> depth/time), go, iter_search, check_limits and stop are executed as compiled with the recursive search replaced by its contract; for every '
             'combination of limits, every root list (incl. searchmoves) and every delivery point of a stop, go() calls Position::uci exactly once with a root move and every reported PV starts with a root move.',
             note='Level B: one node of search()/quiescence_search() as compiled with arbitrary (poisoned) table entry: PV head and stored move are always moves of the node, do/undo balanced. Level A bounded to 3 (quick) / 12 (thorough) completed iterations', ref='DESIGN.md 2/C05'),
 'C06': dict(text='The real Search::stop() is delivered at every point of the Level A schedule of go(); the solver proves that after it returned no further root search completes and go() returns with its bestmove. '
             'Delivery points: before go() resumes, every clock read, before/inside every root search, while an info line is printed (between iterations). Data-race freedom of the flag is decided on the IR (the member must be std::atomic).',
             note='interleavings modelled sequentially (stop() is one store); isready and thread lifetime in uci.cpp not covered; wall-clock promptness not modelled', ref='DESIGN.md 2/C06'),
 'C07': dict(text='is_in_check is proved equal to the rules reference for both colours on symbolic positions; is_checkmate/is_stalemate are proved to be exactly (no generated move) and (in check / not); '
             'is_repeated/threefold_repetition are proved against arbitrary key histories (earlier occurrences, the current entry skipped); rule50 for all 256 clock values; '
             'enough_material for all piece-count vectors (0..10 per kind); is_draw is the disjunction. A lemma query proves the two formulations of the reference attack test equal on every board.',
             note='keys identify positions (C04); history maintenance is C02/C03; empty move list means no legal move (C01); history length bounded by the unwinding (12 quick / 100 thorough)', ref='DESIGN.md 2/C07'),
 'C08': dict(text='Inductive step at one node of search()/quiescence_search() executed as compiled (children by contract): values stay in [-VALUE_MATE, VALUE_MATE] (no +-infinity read as mate), a returned mate score is exactly one ply further than the mate score of a child searched after a move of the node (for every interleaving of null-window searches and re-searches), a node without moves is mate only when in check, '
             'at the root with the full window a mating move becomes PV head with value win_in(1) for every ordering and every value of the other moves; score2str prints mate distances in moves (ceil(plies/2)).',
             note='partial by design: existence of a forced mate behind every announcement for whole searches is a whole-program property and is NOT claimed; model cuts and stubs listed in the evidence', ref='DESIGN.md 2/C08'),
 'C09': dict(text='In the Level A harness print_info is proved to be called with consecutive depths 1,2,..., never above a finite requested depth (0..60, clamping in the constructor included), '
             'bestmove comes no later than iteration d, and with searchmoves the root list is exactly the given moves and bestmove is one of them; Level B proves on the root node of search() as compiled that its PV head is a root move whatever the transposition table holds (the contract Level A uses).',
             note='termination of the aspiration loop relies on the contract value range; bounded number of completed iterations', ref='DESIGN.md 2/C09'),
 'C10': dict(text='Boundary harnesses with CBMC array-bounds/pointer checks: do_move/undo_move with the history counter at 1, 799, 800 for symbolic positions and moves; add_piece up to ten of a kind; '
             'generate_pins on an arbitrary occupancy stays inside PINS[MAX_PINS]; one node of search()/quiescence_search() at the last stack indices; (thorough) iter_search with depth limits 41..60. The same checks are active on all translated functions in every other check.',
             note='I/O layer, std containers, move-list capacity (256 per ply) and uninitialised reads are not covered', ref='DESIGN.md 2/C10'),
 'C11': dict(text='Every slider lookup (bishop, rook, queen; 64 squares) is proved equal to the ray walk for ALL 2^64 occupancies by the solver, on the tables the '
             'real init() computes; leaper/line/castling tables and shift<>/pawn_attacks are proved equal to their geometric definitions for symbolic squares/bitboards. '
             'No bound other than the fixed trip counts of the reference loops.',
             note='trusted: clang IR as semantics, ll2c translator, CBMC+kissat, geometric reference c11_spec.h, tables dumped from a g++ -O1 run of the real init()',
             ref='DESIGN.md 2/C11'),
 'C12': dict(text='The engine\'s KPK win set (bitbase::check after bitbase::normalize on the table built by the real init, and the KPK evaluator for both colours) is proved to be exactly '
             'the game-theoretic win set by a solver-checked certificate: closure conditions for the won set with a well-founded depth witness and for its complement, for every '
             'legal position (kings symbolic, pawn square and side per query). Exhaustive in the thorough tier.',
             note='axiom: safe promotion to Q/R wins; depth witness from an independent retrograde pass is untrusted and only checked', ref='DESIGN.md 2/C12'),
 'C13': dict(text='Each of the 17 specialised endgame evaluators (applies + EndgameBase::score through a harness-built vtable) gives the same score for a position with White as strong '
             'side and for its colour mirror with Black as strong side, for all placements of the listed material and both sides to move.',
             note='general (non-endgame) evaluator terms not yet covered; endgame::score dispatch loop (std::vector<unique_ptr>) not encoded', ref='DESIGN.md 2/C13'),
 'C18': dict(text='PolyglotBook::hash is proved to have the structure of the Polyglot key (one piece-square random per piece, castling randoms per right, en-passant random only with an adjacent '
             'capturing pawn of the side to move, turn random iff White to move) for symbolic positions; the nine published vectors are re-derived through the translated code; '
             'the 781 constants are compared with a digest of the pinned commit.',
             note='no independent copy of Random64 exists offline: constant VALUES are only covered by the nine vectors and by the digest of the pinned tree', ref='DESIGN.md 2/C18'),
 'C19': dict(text='decode_move is proved against its specification for every stored move and board; the weighted random policy is proved to return exactly the entry whose cumulative-weight '
             'interval contains the sample (hence probability proportional to weight and never a zero-weight move) for every sample and weight vector; the best policy returns a maximal-weight entry. The file reader (PolyglotBook constructor as compiled, iostream/map/vector by recording models) is proved to load exactly the complete 16-byte records of an arbitrary file of 0..63 bytes (or an unopenable one), decoded per the Polyglot layout.',
             note='libstdc++ itself is modelled (stream = byte buffer with a fail state, map/vector = recording stubs); files up to 3 records; map lookup and RNG are stubbed; entries per key bounded (3 quick / 5 thorough)', ref='DESIGN.md 2/C19'),
 'C14': dict(text='PositionScorer::score is executed as compiled on a symbolic position with scorer A and on its colour mirror with scorer B, ALL scratch members of both scorers arbitrary on entry: equal values for every '
             'choice prove that nothing survives from earlier evaluations (purity) and colour symmetry; the value is proved to lie strictly inside the non-mate range. A second family of queries proves that setup<> recomputes '
             'every working set from the position alone (failures there are reported only when a native battery demonstrates an evaluation difference); a third family proves get_outposts<c> and score_pawns_for_side<c> colour-symmetric on pawn structures with doubled pawns.',
             note='pawn cache switched off in the queries (transparency argued from the code, not encoded); general evaluator only for small material (K+P v k+p quick); endgame evaluators covered through C13', ref='DESIGN.md 2/C14'),
 'C15': dict(text='move_is_capture, move_is_quiet and move_gives_check are proved to agree with the outcome of playing the move in the rules reference for every legal move '
             '(promotions, en passant, castling, discovered checks) of every placement of the listed material.',
             note='slider_attack<> by contract (C11); material bound', ref='DESIGN.md 2/C15'),
 'C16': dict(text='Packed Move and MoveInfo encodings decode to the fields they were built from, for all field values (no bound). FEN round trip: Position::fen() and Position(std::string) as compiled and composed (std::string / string streams / std::map by models generated from the translation\'s prototypes) reproduce placement, side, rights, en-passant square and clocks for every consistent (side, rights, en-passant, clocks) over five fixed placements; thorough adds arbitrary content of rank 1 / rank 8 and bare kings on symbolic squares. Move text: parse_uci(uci(m)) == m and the long-algebraic format of the text, both functions as compiled, for an ARBITRARY board and every move of legal shape (no material bound).',
             note='FEN: placements are concrete in the quick tier (a fully symbolic run-length coded board text does not finish in the budget); decimal formatting/parsing of the two numbers is libstdc++ and modelled as one token; std::string modelled as (pointer, length)', ref='DESIGN.md 2/C16'),
 'C20': dict(text='Assume/guarantee: importance() on precise IEEE arithmetic lies in [0.01,1]; IEEE addition/division/truncation lemmas proved; computeTimeForFixedLength as compiled (importance and IEEE operations by '
             'those contracts) returns a value in [0,T], monotone in T, for every movesToGo (symbolic); calculateTime as compiled with that contract is non-negative and at most 70% of the remaining time for all clock states; '
             'monotonicity of calculateTime is attempted.',
             note='three IEEE-754 facts about double MULTIPLICATION (range, monotonicity, trunc(0.7*t) <= 70%) are assumed: no available back end decides a 53-bit multiplication; -Ofast reassociation not modelled', ref='DESIGN.md 2/C20'),
}
NA = {
 'C17': 'parse_san is std::regex_match on libstdc++\'s regex NFA plus std::optional/smatch; san() builds std::strings through std::vector/std::function filters and a copied Position. '
        'None of this can be lowered by a hand IR->C translator and CBMC\'s C++ front end cannot parse the headers: solver-based checking of the real code does not apply.',
}
def main():
    props = [json.loads(l)['id'] for l in open(os.path.join(HERE, 'properties.jsonl'))]
    man = {
        'version': 1,
        'setup_cmd': 'python3 /verif/setup_check.py',
        'hooks': {'guard': 'CHESSPLUSPLUS_VERIF', 'enable': 'no hooks: stop delivery, table contents, clocks and randomness are modelled by contract stubs on the unmodified code',
                  'baseline_off_cmd': 'cmake --build /repo/_build >/dev/null && ctest --test-dir /repo/_build -j8 --timeout 900', 'source_commits': [], 'add_only': True},
        'engines': [{'name': 'll2c+cbmc', 'path': '/verif/vlib', 'serves_properties': sorted(CHECKS), 'kind_free_text': TECH}],
        'checks': [], 'not_applicable': [],
        'notes': 'Every check regenerates IR, C and goto binaries from /repo\'s working tree in a private directory under ${VERIF_WORK:-/var/tmp} and removes it on exit. '
                 'Exit 2 (no VIOLATION line) means the check itself is broken (tool failure, vacuous harness, non-reproducing counterexample).',
    }
    for pid in props:
        if pid in CHECKS:
            c = CHECKS[pid]
            man['checks'].append({'property_id': pid, 'quick_cmd': 'python3 /verif/run_check.py %s --tier quick' % pid,
                                  'thorough_cmd': 'python3 /verif/run_check.py %s --tier thorough' % pid,
                                  'evidence_file': '/verif/evidence/%s.json' % pid, 'replay_cmd_template': 'python3 /verif/run_check.py %s --replay {path}' % pid,
                                  'engine': 'll2c+cbmc', 'level_claimed': {'category': 'model_checking', 'text': c['text'], 'design_ref': c['ref']},
                                  'level_note': c['note'], 'technique': TECH})
        else:
            man['not_applicable'].append({'property_id': pid, 'reason': NA.get(pid, 'check not built yet in this session (work in progress; see DESIGN.md for the plan)')})
    json.dump(man, open(os.path.join(HERE, 'MANIFEST.json'), 'w'), indent=1)
if __name__ == '__main__': main()
