#!/usr/bin/env python3
"""Regenerates MANIFEST.json from the table below (kept in one place so that it is always valid)."""
import json, os
HERE = os.path.dirname(os.path.abspath(__file__))
TECH = 'bounded symbolic model checking of the real code: clang-14 IR of /repo -> C (ll2c) -> CBMC 6.11 / kissat; counterexamples replayed natively'
CHECKS = {
 'C11': dict(text='Every slider lookup (bishop, rook, queen; 64 squares) is proved equal to the ray walk for ALL 2^64 occupancies by the solver, on the tables the '
             'real init() computes; leaper/line/castling tables and shift<>/pawn_attacks are proved equal to their geometric definitions for symbolic squares/bitboards. '
             'No bound other than the fixed trip counts of the reference loops.',
             note='trusted: clang IR as semantics, ll2c translator (validated differentially), CBMC+kissat, geometric reference c11_spec.h, tables dumped from a g++ -O1 run of the real init()',
             ref='DESIGN.md 2/C11'),
}
NA = {}
def main():
    props = [json.loads(l)['id'] for l in open(os.path.join(HERE, 'properties.jsonl'))]
    man = {
        'version': 1,
        'setup_cmd': 'python3 /verif/setup_check.py',
        'hooks': {'guard': 'CHESSPLUSPLUS_VERIF', 'enable': 'no hooks: stop delivery, table contents, clocks and randomness are modelled by contract stubs on the unmodified code',
                  'baseline_off_cmd': 'cmake --build /repo/_build >/dev/null && ctest --test-dir /repo/_build -j8 --timeout 900', 'source_commits': [], 'add_only': True},
        'engines': [{'name': 'll2c+cbmc', 'path': '/verif/vlib', 'serves_properties': sorted(CHECKS), 'kind_free_text': TECH}],
        'checks': [], 'not_applicable': [],
        'notes': 'Every check regenerates IR, C and goto binaries from /repo\'s working tree in a private directory under ${VERIF_WORK:-/var/tmp} and removes it on exit. '
                 'Exit 2 (no VIOLATION line) means the check itself is broken (tool failure, vacuous harness, non-reproducing counterexample).',
    }
    for pid in props:
        if pid in CHECKS:
            c = CHECKS[pid]
            man['checks'].append({'property_id': pid, 'quick_cmd': 'python3 /verif/run_check.py %s --tier quick' % pid,
                                  'thorough_cmd': 'python3 /verif/run_check.py %s --tier thorough' % pid,
                                  'evidence_file': '/verif/evidence/%s.json' % pid, 'replay_cmd_template': 'python3 /verif/run_check.py %s --replay {path}' % pid,
                                  'engine': 'll2c+cbmc', 'level_claimed': {'category': 'model_checking', 'text': c['text'], 'design_ref': c['ref']},
                                  'level_note': c['note'], 'technique': TECH})
        else:
            man['not_applicable'].append({'property_id': pid, 'reason': NA.get(pid, 'check not built yet in this session (work in progress; see DESIGN.md for the plan)')})
    json.dump(man, open(os.path.join(HERE, 'MANIFEST.json'), 'w'), indent=1)
if __name__ == '__main__': main()
