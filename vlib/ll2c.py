#!/usr/bin/env python3
"""Prototype LLVM-14 textual IR -> C translator (subset) for CBMC.
usage: ll2c.py in.ll --entry f1 --entry f2 [--stub g ...] [--override name=file] -o out.c
"""
import re, sys, argparse, hashlib, json

TOK = re.compile(r'''
   (?P<cstr>c"(?:[^"\\]|\\[0-9A-Fa-f]{2}|\\\\)*")
 | (?P<lq>[%@]"(?:[^"\\]|\\.)*")
 | (?P<str>"(?:[^"\\]|\\.)*")
 | (?P<id>[%@][-a-zA-Z$._0-9]+)
 | (?P<meta>![-a-zA-Z$._0-9]*)
 | (?P<attr>\#[0-9]+)
 | (?P<hex>0x[KLMHR]?[0-9A-Fa-f]+)
 | (?P<num>-?[0-9]+\.[0-9]*(?:[eE][-+]?[0-9]+)?|-?[0-9]+)
 | (?P<dots>\.\.\.)
 | (?P<word>[a-zA-Z_][-a-zA-Z_.0-9]*)
 | (?P<p>[()\[\]{}<>,=*:|])
 | (?P<ws>\s+)
 | (?P<cmt>;.*)
''', re.X)

def lex(s):
    out = []
    pos = 0
    while pos < len(s):
        m = TOK.match(s, pos)
        if not m:
            raise SyntaxError("lex error at %r" % s[pos:pos+40])
        pos = m.end()
        k = m.lastgroup
        if k in ('ws', 'cmt'):
            continue
        out.append(m.group(k))
    return out

# ---------------- types -----------------
class T:
    pass
class TInt(T):
    def __init__(s, n): s.n = n
    def __repr__(s): return 'i%d' % s.n
class TFloat(T):
    def __init__(s, k): s.k = k
    def __repr__(s): return s.k
class TVoid(T):
    def __repr__(s): return 'void'
class TPtr(T):
    def __init__(s, to): s.to = to
    def __repr__(s): return repr(s.to) + '*'
class TArr(T):
    def __init__(s, n, el): s.n = n; s.el = el
    def __repr__(s): return '[%d x %r]' % (s.n, s.el)
class TStruct(T):  # literal
    def __init__(s, els, packed): s.els = els; s.packed = packed
    def __repr__(s): return ('<{%s}>' if s.packed else '{%s}') % ','.join(map(repr, s.els))
class TNamed(T):
    def __init__(s, name): s.name = name
    def __repr__(s): return s.name
class TFunc(T):
    def __init__(s, ret, params, va): s.ret = ret; s.params = params; s.va = va
    def __repr__(s): return '%r(%s)' % (s.ret, ','.join(map(repr, s.params)))
class TOther(T):
    def __init__(s, k): s.k = k
    def __repr__(s): return s.k

class P:
    """token stream"""
    def __init__(s, toks): s.t = toks; s.i = 0
    def peek(s, k=0): return s.t[s.i + k] if s.i + k < len(s.t) else None
    def next(s):
        x = s.t[s.i]; s.i += 1; return x
    def accept(s, x):
        if s.peek() == x:
            s.i += 1; return True
        return False
    def expect(s, x):
        y = s.next()
        if y != x: raise SyntaxError('expected %r got %r in %r' % (x, y, ' '.join(s.t[max(0,s.i-8):s.i+8])))
    def done(s): return s.i >= len(s.t)

def parse_type(p):
    t = p.next()
    if re.fullmatch(r'i[0-9]+', t): ty = TInt(int(t[1:]))
    elif t in ('float', 'double', 'half', 'x86_fp80', 'fp128'): ty = TFloat(t)
    elif t == 'void': ty = TVoid()
    elif t in ('label', 'metadata', 'token', 'opaque'): ty = TOther(t)
    elif t == 'ptr': ty = TPtr(TInt(8))
    elif t == '[':
        n = int(p.next()); p.expect('x'); el = parse_type(p); p.expect(']'); ty = TArr(n, el)
    elif t == '{':
        els = []
        if not p.accept('}'):
            while True:
                els.append(parse_type(p))
                if p.accept('}'): break
                p.expect(',')
        ty = TStruct(els, False)
    elif t == '<':
        if p.peek() == '{':
            p.next(); els = []
            if not p.accept('}'):
                while True:
                    els.append(parse_type(p))
                    if p.accept('}'): break
                    p.expect(',')
            p.expect('>'); ty = TStruct(els, True)
        else:
            n = int(p.next()); p.expect('x'); el = parse_type(p); p.expect('>'); ty = TOther('vec')
    elif t.startswith('%'):
        ty = TNamed(t)
    else:
        raise SyntaxError('bad type token %r near %r' % (t, ' '.join(p.t[max(0,p.i-6):p.i+6])))
    while True:
        if p.peek() == '*':
            p.next(); ty = TPtr(ty)
        elif p.peek() == '(':
            p.next(); params = []; va = False
            if not p.accept(')'):
                while True:
                    if p.peek() == '...':
                        p.next(); va = True
                    else:
                        params.append(parse_type(p))
                    if p.accept(')'): break
                    p.expect(',')
            ty = TFunc(ty, params, va)
        else:
            break
    return ty

PARAM_ATTRS = {'noundef','nonnull','nocapture','readonly','writeonly','readnone','noalias','returned','signext','zeroext','inreg','nest','immarg','nofree','swiftself','swifterror'}
def skip_param_attrs(p):
    while True:
        t = p.peek()
        if t in PARAM_ATTRS: p.next()
        elif t in ('align',):
            p.next(); p.next()
        elif t in ('dereferenceable', 'dereferenceable_or_null'):
            p.next(); p.expect('('); p.next(); p.expect(')')
        elif t in ('sret', 'byval', 'byref', 'inalloca', 'preallocated', 'elementtype'):
            p.next(); p.expect('('); parse_type(p); p.expect(')')
        else: break

# ---------------- values -----------------
class V:  # value: kind in {'reg','glob','int','fp','null','undef','zero','agg','cexpr','str'}
    def __init__(s, kind, ty, **kw): s.kind = kind; s.ty = ty; s.__dict__.update(kw)
    def __repr__(s): return 'V(%s,%r,%s)' % (s.kind, s.ty, {k:v for k,v in s.__dict__.items() if k not in ('kind','ty')})

CAST_OPS = {'bitcast','inttoptr','ptrtoint','trunc','zext','sext','addrspacecast','sitofp','uitofp','fptosi','fptoui','fpext','fptrunc'}
BIN_OPS = {'add','sub','mul','shl','lshr','ashr','and','or','xor','udiv','sdiv','urem','srem'}

def parse_value(p, ty):
    t = p.next()
    if t.startswith('%'): return V('reg', ty, name=t)
    if t.startswith('@'): return V('glob', ty, name=t)
    if t in ('true', 'false'): return V('int', ty, val=1 if t == 'true' else 0)
    if t == 'null': return V('null', ty)
    if t in ('undef', 'poison'): return V('undef', ty)
    if t == 'zeroinitializer': return V('zero', ty)
    if t.startswith('0x'):
        return V('fp', ty, hexv=t)
    if re.fullmatch(r'-?[0-9]+', t):
        if isinstance(ty, TFloat): return V('fp', ty, dec=t)
        return V('int', ty, val=int(t))
    if re.fullmatch(r'-?[0-9]+\.[0-9]*(?:[eE][-+]?[0-9]+)?', t): return V('fp', ty, dec=t)
    if t.startswith('c"'):
        raw = t[2:-1]; bs = []
        i = 0
        while i < len(raw):
            if raw[i] == '\\':
                if raw[i+1] == '\\': bs.append(92); i += 2
                else: bs.append(int(raw[i+1:i+3], 16)); i += 3
            else: bs.append(ord(raw[i])); i += 1
        return V('str', ty, bytes=bs)
    if t == '[' or t == '{' or t == '<':
        close = {'[': ']', '{': '}', '<': '>'}[t]
        packed = False
        if t == '<' and p.peek() == '{':
            p.next(); packed = True; close = '}'
        els = []
        if not p.accept(close):
            while True:
                ety = parse_type(p)
                els.append(parse_value(p, ety))
                if p.accept(close): break
                p.expect(',')
        if packed: p.expect('>')
        return V('agg', ty, els=els)
    if t == 'getelementptr':
        p.accept('inbounds'); p.expect('(')
        bty = parse_type(p); p.expect(',')
        pty = parse_type(p); base = parse_value(p, pty)
        idx = []
        while p.accept(','):
            p.accept('inrange')
            ity = parse_type(p); idx.append(parse_value(p, ity))
        p.expect(')')
        return V('cexpr', ty, op='gep', bty=bty, base=base, idx=idx)
    if t in CAST_OPS:
        p.expect('('); sty = parse_type(p); v = parse_value(p, sty); p.expect('to'); dty = parse_type(p); p.expect(')')
        return V('cexpr', dty, op=t, src=v)
    if t in BIN_OPS:
        while p.peek() in ('nuw', 'nsw', 'exact'): p.next()
        p.expect('('); aty = parse_type(p); a = parse_value(p, aty); p.expect(','); bty = parse_type(p); b = parse_value(p, bty); p.expect(')')
        return V('cexpr', aty, op=t, a=a, b=b)
    raise SyntaxError('bad value token %r near %r' % (t, ' '.join(p.t[max(0,p.i-8):p.i+8])))

def parse_tv(p):
    ty = parse_type(p)
    skip_param_attrs(p)
    return parse_value(p, ty)

# ---------------- module -----------------
class Func:
    def __init__(s): s.name = None; s.ret = None; s.params = []; s.blocks = []; s.decl = True; s.va = False
class Block:
    def __init__(s, label): s.label = label; s.ins = []
class Ins:
    def __init__(s, op, res=None, **kw): s.op = op; s.res = res; s.__dict__.update(kw)

class Module:
    def __init__(s): s.types = {}; s.globals = {}; s.funcs = {}; s.order = []

LINKAGE = {'private','internal','available_externally','linkonce','weak','common','appending','extern_weak','linkonce_odr','weak_odr','external','dso_local','dso_preemptable','hidden','protected','default','unnamed_addr','local_unnamed_addr','thread_local','constant_dummy'}

def parse_module(text):
    m = Module()
    lines = text.split('\n')
    i = 0
    cur = None; blk = None
    while i < len(lines):
        line = lines[i]; i += 1
        s = line.strip()
        if not s or s.startswith(';'): continue
        if cur is None:
            if s.startswith('source_filename') or s.startswith('target ') or s.startswith('!') or s.startswith('attributes ') or s.startswith('$') or s.startswith('module asm'):
                continue
            if s.startswith('%') and ' = type ' in s:
                toks = lex(s); p = P(toks)
                name = p.next(); p.expect('='); p.expect('type')
                if p.peek() == 'opaque':
                    m.types[name] = None
                else:
                    m.types[name] = parse_type(p)
                continue
            if s.startswith('@'):
                toks = lex(s); p = P(toks)
                name = p.next(); p.expect('=')
                is_alias = False
                while p.peek() in LINKAGE or p.peek() in ('thread_local',): p.next()
                if p.peek() == 'alias' or p.peek() == 'ifunc':
                    continue
                if p.peek() == 'addrspace':
                    p.next(); p.expect('('); p.next(); p.expect(')')
                ext = False
                if p.peek() == 'externally_initialized': p.next()
                kw = p.next()
                assert kw in ('global', 'constant'), (kw, s[:100])
                ty = parse_type(p)
                init = None
                if not p.done() and p.peek() != ',':
                    init = parse_value(p, ty)
                m.globals[name] = (ty, init, kw == 'constant')
                continue
            if s.startswith('declare') or s.startswith('define'):
                # header may not span lines in practice
                hdr = s
                toks = lex(hdr); p = P(toks)
                kind = p.next()
                f = Func(); f.decl = (kind == 'declare')
                # skip until return type: tokens before '@name(' ; find index of first '@' token followed by '('
                # simpler: scan tokens to locate function name token
                idx = None
                for k, t in enumerate(toks):
                    if t.startswith('@') and k + 1 < len(toks) and toks[k+1] == '(':
                        idx = k; break
                assert idx is not None, hdr[:200]
                # return type is the type expression ending right before idx; parse backwards is hard -> parse forward skipping attrs
                p.i = 1
                RET_SKIP = LINKAGE | PARAM_ATTRS | {'fastcc','ccc','coldcc','cc','tailcc','noundef'}
                while True:
                    t = p.peek()
                    if t in RET_SKIP: p.next()
                    elif t == 'align': p.next(); p.next()
                    elif t in ('dereferenceable','dereferenceable_or_null'):
                        p.next(); p.expect('('); p.next(); p.expect(')')
                    else: break
                f.ret = parse_type(p)
                assert p.i == idx, (p.i, idx, hdr[:300])
                f.name = p.next(); p.expect('(')
                if not p.accept(')'):
                    while True:
                        if p.peek() == '...':
                            p.next(); f.va = True
                        else:
                            pty = parse_type(p); skip_param_attrs(p)
                            pname = None
                            if p.peek() and p.peek().startswith('%'): pname = p.next()
                            f.params.append((pty, pname))
                        if p.accept(')'): break
                        p.expect(',')
                if f.name in m.funcs and not m.funcs[f.name].decl and f.decl:
                    continue
                m.funcs[f.name] = f
                if not f.decl:
                    # unnamed params get %0..%n-1
                    nn = 0
                    ps = []
                    for (pty, pname) in f.params:
                        if pname is None:
                            pname = '%' + str(nn)
                        nn += 1
                        ps.append((pty, pname))
                    f.params = ps
                    cur = f; blk = Block('%' + str(len(f.params))) ; f.blocks.append(blk)
                    m.order.append(f.name)
                continue
            continue
        # inside function
        if s == '}':
            cur = None; blk = None; continue
        mm = re.match(r'^([-a-zA-Z$._0-9]+|"[^"]*"):', s)
        if mm:
            lab = mm.group(1)
            blk = Block('%' + lab); cur.blocks.append(blk); continue
        if (' invoke ' in s or s.startswith('invoke ')) and ' unwind label ' not in s:
            s += ' ' + lines[i].strip(); i += 1
        # switch spans lines
        if s.startswith('switch ') and s.endswith('['):
            while not lines[i].strip().startswith(']'):
                s += ' ' + lines[i].strip(); i += 1
            s += ' ]'; i += 1
        # landingpad clauses span lines
        if ' landingpad ' in s or s.startswith('landingpad'):
            while i < len(lines) and (lines[i].strip().startswith('cleanup') or lines[i].strip().startswith('catch') or lines[i].strip().startswith('filter')):
                i += 1
            blk.ins.append(Ins('landingpad', res=s.split('=')[0].strip() if '=' in s else None)); continue
        try:
            blk.ins.append(parse_ins(s))
        except (SyntaxError, NotImplementedError, IndexError, AssertionError) as e:
            blk.ins.append(Ins('unsupported', None, text=s, err=str(e)))
    return m

def parse_call_args(p):
    args = []
    p.expect('(')
    if not p.accept(')'):
        while True:
            if p.peek() == 'metadata':
                # skip metadata arg
                depth = 0
                while not (depth == 0 and p.peek() in (',', ')')):
                    t = p.next()
                    if t == '(': depth += 1
                    if t == ')': depth -= 1
                args.append(None)
            else:
                args.append(parse_tv(p))
            if p.accept(')'): break
            p.expect(',')
    return args

FMF = {'fast','nnan','ninf','nsz','arcp','contract','afn','reassoc'}

def parse_ins(s):
    toks = lex(s); p = P(toks)
    res = None
    if len(toks) > 2 and toks[1] == '=' and toks[0].startswith('%'):
        res = p.next(); p.next()
    op = p.next()
    if op in ('tail', 'musttail', 'notail'):
        op = p.next()
    if op in BIN_OPS:
        flags = []
        while p.peek() in ('nuw', 'nsw', 'exact'): flags.append(p.next())
        ty = parse_type(p); a = parse_value(p, ty); p.expect(','); b = parse_value(p, ty)
        return Ins('bin', res, bop=op, ty=ty, a=a, b=b, flags=flags)
    if op in ('fadd','fsub','fmul','fdiv','frem'):
        while p.peek() in FMF: p.next()
        ty = parse_type(p); a = parse_value(p, ty); p.expect(','); b = parse_value(p, ty)
        return Ins('fbin', res, bop=op, ty=ty, a=a, b=b)
    if op == 'fneg':
        while p.peek() in FMF: p.next()
        ty = parse_type(p); a = parse_value(p, ty)
        return Ins('fneg', res, ty=ty, a=a)
    if op == 'icmp':
        pred = p.next(); ty = parse_type(p); a = parse_value(p, ty); p.expect(','); b = parse_value(p, ty)
        return Ins('icmp', res, pred=pred, ty=ty, a=a, b=b)
    if op == 'fcmp':
        while p.peek() in FMF: p.next()
        pred = p.next(); ty = parse_type(p); a = parse_value(p, ty); p.expect(','); b = parse_value(p, ty)
        return Ins('fcmp', res, pred=pred, ty=ty, a=a, b=b)
    if op in CAST_OPS:
        sty = parse_type(p); v = parse_value(p, sty); p.expect('to'); dty = parse_type(p)
        return Ins('cast', res, cop=op, src=v, ty=dty)
    if op == 'load':
        p.accept('atomic'); p.accept('volatile')
        ty = parse_type(p); p.expect(','); pty = parse_type(p); ptr = parse_value(p, pty)
        return Ins('load', res, ty=ty, ptr=ptr)
    if op == 'store':
        p.accept('atomic'); p.accept('volatile')
        ty = parse_type(p); v = parse_value(p, ty); p.expect(','); pty = parse_type(p); ptr = parse_value(p, pty)
        return Ins('store', None, ty=ty, val=v, ptr=ptr)
    if op == 'getelementptr':
        inb = p.accept('inbounds')
        bty = parse_type(p); p.expect(','); pty = parse_type(p); base = parse_value(p, pty)
        idx = []
        while p.accept(','):
            ity = parse_type(p); idx.append(parse_value(p, ity))
        return Ins('gep', res, bty=bty, base=base, idx=idx, ty=None)
    if op == 'phi':
        ty = parse_type(p); inc = []
        while True:
            p.expect('['); v = parse_value(p, ty); p.expect(','); lab = p.next(); p.expect(']')
            inc.append((v, lab))
            if not p.accept(','): break
        return Ins('phi', res, ty=ty, inc=inc)
    if op == 'select':
        while p.peek() in FMF: p.next()
        cty = parse_type(p); c = parse_value(p, cty); p.expect(',')
        ty = parse_type(p); a = parse_value(p, ty); p.expect(','); ty2 = parse_type(p); b = parse_value(p, ty2)
        return Ins('select', res, ty=ty, c=c, a=a, b=b)
    if op in ('call', 'invoke'):
        while p.peek() in FMF: p.next()
        while p.peek() in ('fastcc','ccc','coldcc','tailcc') : p.next()
        skip_param_attrs(p)
        rty = parse_type(p)
        if isinstance(rty, TPtr) and isinstance(rty.to, TFunc) and p.peek() and (p.peek().startswith('@') or p.peek().startswith('%')) and False:
            pass
        # callee: rty may already have swallowed function type "T (args)*" ; callee is next token
        callee_tok = p.next()
        if callee_tok in ('bitcast',):
            # call through constant bitcast
            p.expect('('); sty = parse_type(p); cv = parse_value(p, sty); p.expect('to'); dty = parse_type(p); p.expect(')')
            callee = cv
        elif callee_tok.startswith('@'):
            callee = V('glob', None, name=callee_tok)
        elif callee_tok.startswith('%'):
            callee = V('reg', None, name=callee_tok)
        elif callee_tok == 'asm':
            return Ins('asm', res)
        else:
            raise SyntaxError('callee? ' + s)
        if isinstance(rty, TPtr) and isinstance(rty.to, TFunc):
            rty = rty.to.ret
        elif isinstance(rty, TFunc):
            rty = rty.ret
        args = parse_call_args(p)
        ins = Ins('call', res, ty=rty, callee=callee, args=args)
        if op == 'invoke':
            # skip attrs up to 'to'
            while p.peek() != 'to': p.next()
            p.expect('to'); p.expect('label'); ins.normal = p.next(); p.expect('unwind'); p.expect('label'); ins.unwind = p.next()
            ins.op = 'invoke'
        return ins
    if op == 'br':
        if p.peek() == 'label':
            p.next(); return Ins('br', None, dest=p.next())
        cty = parse_type(p); c = parse_value(p, cty); p.expect(','); p.expect('label'); a = p.next(); p.expect(','); p.expect('label'); b = p.next()
        return Ins('cbr', None, c=c, a=a, b=b)
    if op == 'switch':
        ty = parse_type(p); v = parse_value(p, ty); p.expect(','); p.expect('label'); d = p.next(); p.expect('[')
        cases = []
        while not p.accept(']'):
            cty = parse_type(p); cv = parse_value(p, cty); p.expect(','); p.expect('label'); cases.append((cv, p.next()))
        return Ins('switch', None, ty=ty, v=v, default=d, cases=cases)
    if op == 'ret':
        ty = parse_type(p)
        if isinstance(ty, TVoid): return Ins('ret', None, val=None)
        return Ins('ret', None, val=parse_value(p, ty))
    if op == 'alloca':
        ty = parse_type(p)
        n = None
        if p.accept(','):
            if p.peek() != 'align':
                nty = parse_type(p); n = parse_value(p, nty)
        return Ins('alloca', res, ty=ty, n=n)
    if op == 'unreachable': return Ins('unreachable')
    if op == 'resume': return Ins('resume')
    if op == 'extractvalue':
        ty = parse_type(p); v = parse_value(p, ty); idx = []
        while p.accept(','): idx.append(int(p.next()))
        return Ins('extractvalue', res, aty=ty, v=v, idx=idx)
    if op == 'insertvalue':
        ty = parse_type(p); v = parse_value(p, ty); p.expect(','); ety = parse_type(p); e = parse_value(p, ety); idx = []
        while p.accept(','): idx.append(int(p.next()))
        return Ins('insertvalue', res, ty=ty, v=v, e=e, idx=idx)
    if op == 'freeze':
        ty = parse_type(p); v = parse_value(p, ty)
        return Ins('cast', res, cop='bitcast', src=v, ty=ty)
    raise SyntaxError('unknown instruction: ' + s)

# ---------------- C emission -----------------
def cid(name):
    n = name[1:]
    if n.startswith('"'): n = n[1:-1]
    out = re.sub(r'[^A-Za-z0-9_]', lambda m: '_%02x' % ord(m.group(0)) if m.group(0) not in '.:' else '_', n)
    return out

class Emitter:
    def __init__(s, m, stubs, overrides, nsw_checks=False, prefix='', keep=()):
        s.m = m; s.stubs = set(stubs); s.overrides = overrides; s.lit = {}; s.out = []; s.nsw = nsw_checks
        s.prefix = prefix; s.keep = set(keep); s.env_tables = {}; s.def_rename = {}
        s.used_types = []; s.seen_named = set()

    def gname(s, name):
        """C identifier of a module-level symbol; symbols defined in the module (and not stubbed/kept) get the prefix"""
        c = cid(name)
        if not s.prefix or name in s.keep: return c
        if name in s.m.funcs:
            f = s.m.funcs[name]
            if f.decl or name in s.stubs: return c
            return s.prefix + c
        if name in s.m.globals:
            if s.m.globals[name][1] is None: return c
            return s.prefix + c
        return c

    def resolve(s, t):
        while isinstance(t, TNamed):
            t = s.m.types.get(t.name)
        return t

    def structname(s, t):
        if isinstance(t, TNamed):
            return 'struct S_' + cid(t.name)
        key = repr(t)
        if key not in s.lit:
            s.lit[key] = ('L_' + hashlib.md5(key.encode()).hexdigest()[:10], t)
        return 'struct ' + s.lit[key][0]

    def cint(s, n, signed=False):
        for w in (8, 16, 32, 64):
            if n <= w:
                return ('int%d_t' if signed else 'uint%d_t') % w
        if n <= 128: return '__int128' if signed else 'unsigned __int128'
        raise NotImplementedError('i%d' % n)

    def cdecl(s, t, inner=''):
        if isinstance(t, TInt):
            base = '_Bool' if t.n == 1 else s.cint(t.n)
            return (base + ' ' + inner).rstrip()
        if isinstance(t, TFloat):
            return ({'float': 'float', 'double': 'double'}.get(t.k, 'long double') + ' ' + inner).rstrip()
        if isinstance(t, TVoid): return ('void ' + inner).rstrip()
        if isinstance(t, TPtr):
            to = t.to
            rto = to
            if isinstance(rto, TNamed) and s.m.types.get(rto.name, 0) is None:
                return ('void *' + inner).rstrip()
            if isinstance(to, TFunc):
                return s.cdecl(to, '(*%s)' % inner)
            if isinstance(to, TArr):
                return s.cdecl(to, '(*%s)' % inner)
            if isinstance(to, TVoid) or (isinstance(to, TInt) and False):
                return ('void *' + inner).rstrip()
            return s.cdecl(to, '*' + inner)
        if isinstance(t, TArr):
            return s.cdecl(t.el, '%s[%d]' % (inner, max(t.n, 0)))
        if isinstance(t, (TStruct, TNamed)):
            if isinstance(t, TNamed) and s.m.types.get(t.name, 0) is None:
                return ('struct S_' + cid(t.name) + ' ' + inner).rstrip()
            if isinstance(t, TNamed): s.seen_named.add(t.name)
            return (s.structname(t) + ' ' + inner).rstrip()
        if isinstance(t, TFunc):
            ps = ', '.join(s.cdecl(x) for x in t.params)
            if t.va: ps = (ps + ', ...') if ps else ''
            elif not ps: ps = 'void'
            return s.cdecl(t.ret, '%s(%s)' % (inner, ps))
        if isinstance(t, TOther):
            return ('void *' + inner).rstrip()
        raise NotImplementedError(repr(t))

    # ---- values
    def const_init(s, v, ty):
        rt = s.resolve(ty)
        if v.kind == 'int': return str(v.val & ((1 << rt.n) - 1)) + ('ULL' if rt.n > 32 else 'U')
        if v.kind in ('zero', 'undef', 'null'):
            if isinstance(rt, (TInt, TFloat, TPtr)): return '0'
            return '{0}'
        if v.kind == 'fp': return s.fpconst(v)
        if v.kind == 'str': return '{' + ','.join(map(str, v.bytes)) + '}'
        if v.kind == 'agg':
            if isinstance(rt, TArr): return '{' + ','.join(s.const_init(e, rt.el) for e in v.els) + '}'
            return '{' + ','.join(s.const_init(e, et) for e, et in zip(v.els, rt.els)) + '}'
        if v.kind in ('glob', 'cexpr'):
            return s.val(v)
        raise NotImplementedError(repr(v))

    def fpconst(s, v):
        if hasattr(v, 'dec'): return v.dec if ('.' in v.dec or 'e' in v.dec) else v.dec + '.0'
        h = v.hexv
        import struct
        if h[2] in 'KLMHR': raise NotImplementedError(h)
        bits = int(h, 16)
        d = struct.unpack('<d', struct.pack('<Q', bits))[0]
        if d != d: return '(0.0/0.0)'
        if d in (float('inf'), float('-inf')): return '(1.0/0.0)' if d > 0 else '(-1.0/0.0)'
        return d.hex()

    def val(s, v):
        k = v.kind
        if k == 'raw': return v.text
        if k == 'reg': return 'v_' + cid(v.name)
        if k == 'glob':
            if v.name in s.m.funcs: return s.gname(v.name)
            return '(&%s)' % s.gname(v.name)
        if k == 'int':
            rt = s.resolve(v.ty)
            n = rt.n if isinstance(rt, TInt) else 64
            return '((%s)%d%s)' % (s.cdecl(rt), v.val & ((1 << n) - 1), 'ULL' if n > 32 else 'U')
        if k == 'null': return '((%s)0)' % s.cdecl(v.ty)
        if k == 'undef' or k == 'zero':
            rt = s.resolve(v.ty)
            if isinstance(rt, (TInt, TPtr, TFloat)): return '((%s)0)' % s.cdecl(rt)
            return '((%s){0})' % s.cdecl(v.ty)
        if k == 'fp': return '((%s)%s)' % (s.cdecl(v.ty), s.fpconst(v))
        if k == 'cexpr':
            if v.op == 'gep': return s.gep(v.bty, v.base, v.idx)
            if v.op in CAST_OPS: return s.cast(v.op, v.src, v.ty)
            if v.op in BIN_OPS: return s.binop(v.op, v.ty, v.a, v.b)
        raise NotImplementedError(repr(v))

    def gep(s, bty, base, idx):
        if idx[0].kind == 'int' and idx[0].val == 0:
            if base.kind == 'glob' and base.name not in s.m.funcs: e = s.gname(base.name)
            else: e = '(*%s)' % s.val(base)
        else:
            e = '(*(%s + (int64_t)%s))' % (s.val(base), s.sx(idx[0]))
        t = bty
        for ix in idx[1:]:
            rt = s.resolve(t)
            if isinstance(rt, TStruct):
                assert ix.kind == 'int'
                e += '.f%d' % ix.val; t = rt.els[ix.val]
            elif isinstance(rt, TArr):
                e += '[(int64_t)%s]' % s.sx(ix); t = rt.el
            else:
                raise NotImplementedError('gep into %r' % rt)
        s._gep_result_type = TPtr(t)
        s._gep_lvalue = e
        return '(&%s)' % e

    def sx(s, v):
        """value as signed 64-bit index expression"""
        if v.kind == 'raw': return v.text
        rt = s.resolve(v.ty)
        if v.kind == 'int':
            n = rt.n; x = v.val & ((1 << n) - 1)
            if x >> (n - 1): x -= (1 << n)
            return '(%dLL)' % x
        if rt.n == 64: return s.val(v)
        return '((%s)%s)' % (s.cint(rt.n, True), s.val(v))

    def mask(s, n, e):
        if n in (8, 16, 32, 64): return e
        if n == 1: return '((%s) & 1)' % e
        return '((%s) & %dULL)' % (e, (1 << n) - 1)

    def signed(s, n, e):
        """expression e (unsigned container, width n) as signed C value of container width"""
        if n in (8, 16, 32, 64): return '((%s)%s)' % (s.cint(n, True), e)
        w = [x for x in (8, 16, 32, 64) if n <= x][0]
        return '(((%s)((%s)%s << %d)) >> %d)' % (s.cint(w, True), s.cint(w), e, w - n, w - n)

    def binop(s, op, ty, a, b):
        rt = s.resolve(ty); n = rt.n
        wide = 'uint64_t' if n > 32 else 'uint32_t'
        W = 64 if n > 32 else 32
        A = '(%s)%s' % (wide, s.val(a)); B = '(%s)%s' % (wide, s.val(b))
        sym = {'add': '+', 'sub': '-', 'mul': '*', 'and': '&', 'or': '|', 'xor': '^', 'udiv': '/', 'urem': '%'}
        if op in sym:
            e = '(%s %s %s)' % (A, sym[op], B)
        elif op == 'shl': e = 'LL2C_SHL%d(%s, %s, %d)' % (W, A, B, n)
        elif op == 'lshr': e = 'LL2C_LSHR%d(%s, %s, %d)' % (W, A, B, n)
        elif op == 'ashr':
            e = '(%s)LL2C_ASHR%d(%s, %s, %d)' % (wide, W, s.signed(n, s.val(a)), B, n)
        elif op == 'sdiv': e = '(%s)(%s / %s)' % (wide, s.signed(n, s.val(a)), s.signed(n, s.val(b)))
        elif op == 'srem': e = '(%s)(%s %% %s)' % (wide, s.signed(n, s.val(a)), s.signed(n, s.val(b)))
        else: raise NotImplementedError(op)
        return '((%s)%s)' % (s.cdecl(rt), s.mask(n, e))

    def cast(s, op, src, dty):
        st = s.resolve(src.ty); dt = s.resolve(dty)
        x = s.val(src)
        if op in ('bitcast', 'addrspacecast'):
            if isinstance(st, TPtr) or isinstance(dt, TPtr): return '((%s)%s)' % (s.cdecl(dty), x)
            if repr(st) == repr(dt): return x
            if isinstance(st, TFloat) or isinstance(dt, TFloat):
                return 'LL2C_BITCAST(%s, %s, %s)' % (s.cdecl(st), s.cdecl(dt), x)
            return '((%s)%s)' % (s.cdecl(dty), x)
        if op == 'inttoptr': return '((%s)(uintptr_t)%s)' % (s.cdecl(dty), x)
        if op == 'ptrtoint': return '((%s)(uintptr_t)%s)' % (s.cdecl(dty), x)
        if op == 'zext': return '((%s)%s)' % (s.cdecl(dt), x)
        if op == 'trunc': return '((%s)%s)' % (s.cdecl(dt), s.mask(dt.n, '(uint64_t)' + x))
        if op == 'sext': return '((%s)%s)' % (s.cdecl(dt), s.mask(dt.n, '(uint64_t)(int64_t)' + s.signed(st.n, x)))
        if op == 'sitofp': return '((%s)%s)' % (s.cdecl(dt), s.signed(st.n, x))
        if op == 'uitofp': return '((%s)%s)' % (s.cdecl(dt), x)
        if op == 'fptosi': return '((%s)(%s)%s)' % (s.cdecl(dt), s.cint(dt.n, True), x)
        if op == 'fptoui': return '((%s)%s)' % (s.cdecl(dt), x)
        if op in ('fpext', 'fptrunc'): return '((%s)%s)' % (s.cdecl(dt), x)
        raise NotImplementedError(op)

    # ---- functions
    def reachable(s, entries):
        if not hasattr(s, 'gl_used'): s.gl_used = set()
        seen = []; work = list(entries)
        while work:
            f = work.pop()
            if f in seen: continue
            if f not in s.m.funcs: raise KeyError('no function ' + f)
            seen.append(f)
            fn = s.m.funcs[f]
            if fn.decl or f in s.stubs: continue
            for b in fn.blocks:
                for ins in b.ins:
                    for v in s.ins_values(ins):
                        s.collect_globs(v, work)
        return seen

    def ins_values(s, ins):
        for k, v in ins.__dict__.items():
            if isinstance(v, V): yield v
            elif isinstance(v, list):
                for x in v:
                    if isinstance(x, V): yield x
                    elif isinstance(x, tuple):
                        for y in x:
                            if isinstance(y, V): yield y

    def collect_globs(s, v, work):
        if v is None: return
        if v.kind == 'glob':
            if v.name in s.m.funcs: work.append(v.name)
            else: s.gl_used.add(v.name)
        elif v.kind == 'cexpr':
            for k in ('base', 'src', 'a', 'b'):
                if hasattr(v, k): s.collect_globs(getattr(v, k), work)
            for x in getattr(v, 'idx', []): s.collect_globs(x, work)
        elif v.kind == 'agg':
            for x in v.els: s.collect_globs(x, work)

    def regs_in(s, v):
        if v is None: return
        if v.kind == 'reg': yield v.name
        elif v.kind == 'cexpr':
            for k in ('base', 'src', 'a', 'b'):
                if hasattr(v, k): yield from s.regs_in(getattr(v, k))
            for x in getattr(v, 'idx', []): yield from s.regs_in(x)
        elif v.kind == 'agg':
            for x in v.els: yield from s.regs_in(x)

    def proto(s, fn, defining=False):
        if defining and fn.name in s.def_rename:
            ps0 = ', '.join(s.cdecl(t, 'v_' + cid(n)) if n else s.cdecl(t, 'v_%d' % i) for i, (t, n) in enumerate(fn.params)) or 'void'
            return s.cdecl(fn.ret, '%s(%s)' % (s.def_rename[fn.name], ps0))
        ps = ', '.join(s.cdecl(t, 'v_' + cid(n)) if n else s.cdecl(t, 'v_%d' % i) for i, (t, n) in enumerate(fn.params)) or 'void'
        if fn.va: ps += ', ...'
        return s.cdecl(fn.ret, '%s(%s)' % (s.gname(fn.name), ps))

    def rpo(s, fn):
        """reorder blocks in reverse post-order so that only real back-edges are backward gotos"""
        if getattr(fn, '_rpo', False): return
        fn._rpo = True
        bl = {b.label: b for b in fn.blocks}
        def succ(b):
            t = b.ins[-1] if b.ins else None
            out = []
            for ins in b.ins:
                if ins.op == 'invoke': out.append(ins.normal)   # unwind edge is cut (assume(false))
            if t is None: return out
            if t.op == 'br': out.append(t.dest)
            elif t.op == 'cbr': out += [t.a, t.b]
            elif t.op == 'switch': out += [t.default] + [l for _, l in t.cases]
            return out
        seen = set(); post = []
        stack = [(fn.blocks[0], iter(succ(fn.blocks[0])))]
        seen.add(fn.blocks[0].label)
        while stack:
            b, it = stack[-1]
            adv = False
            for l in it:
                if l not in seen:
                    seen.add(l); nb = bl[l]; stack.append((nb, iter(succ(nb)))); adv = True; break
            if not adv:
                post.append(b); stack.pop()
        fn.blocks = post[::-1]

    def emit_func(s, fn):
        s.rpo(fn)
        s._defs = {ins.res: ins for b in fn.blocks for ins in b.ins if ins.res}
        s._fn = fn
        o = []
        o.append(s.proto(fn, True) + '\n{')
        # declare regs
        decls = {}
        labels = {b.label for b in fn.blocks}
        preds_phi = {}
        for b in fn.blocks:
            for ins in b.ins:
                if ins.res:
                    if ins.op == 'gep':
                        s.gep(ins.bty, ins.base, ins.idx); ty = s._gep_result_type
                    elif ins.op == 'alloca': ty = TPtr(ins.ty)
                    elif ins.op == 'icmp' or ins.op == 'fcmp': ty = TInt(1)
                    elif ins.op == 'extractvalue':
                        t = ins.aty
                        for ix in ins.idx:
                            rt = s.resolve(t); t = rt.els[ix] if isinstance(rt, TStruct) else rt.el
                        ty = t
                    elif ins.op == 'landingpad': continue
                    else: ty = ins.ty
                    if isinstance(ty, TVoid): ins.res = None; continue
                    decls[ins.res] = ty
        for r, ty in decls.items():
            o.append('  ' + s.cdecl(ty, 'v_' + cid(r)) + ';')
        body = []
        # GEPs used only as load/store addresses are never materialised as pointers (CBMC turns a pointer with a
        # symbolic offset into byte-level operations over the whole object): base and non-constant indices are
        # snapshotted where the GEP is defined and every use is emitted as a direct lvalue T[i][j].f
        inl = {}
        for b in fn.blocks:
            for ins in b.ins:
                if ins.op == 'gep' and ins.res: inl[ins.res] = ins
        for b in fn.blocks:
            for ins in b.ins:
                for k, v in ins.__dict__.items():
                    vs = [v] if isinstance(v, V) else ([x for x in v if isinstance(x, V)] + [y for x in v if isinstance(x, tuple) for y in x if isinstance(y, V)]) if isinstance(v, list) else []
                    for x in vs:
                        for r in s.regs_in(x):
                            if r in inl:
                                ok = (ins.op in ('load', 'store') and k == 'ptr' and x.kind == 'reg')
                                if not ok: inl.pop(r)
        psel = {}
        for b in fn.blocks:
            for ins in b.ins:
                if ins.op == 'select' and ins.res and isinstance(s.resolve(ins.ty), TPtr): psel[ins.res] = ins
        for b in fn.blocks:
            for ins in b.ins:
                for k, v in ins.__dict__.items():
                    vs = [v] if isinstance(v, V) else ([x for x in v if isinstance(x, V)] + [y for x in v if isinstance(x, tuple) for y in x if isinstance(y, V)]) if isinstance(v, list) else []
                    for x in vs:
                        for r in s.regs_in(x):
                            if r in psel and not (ins.op in ('load', 'store') and k == 'ptr' and x.kind == 'reg'): psel.pop(r)
        # operands of a kept pointer-select count as load/store uses of the GEPs they name: re-admit those GEPs
        geps = {ins.res: ins for b in fn.blocks for ins in b.ins if ins.op == 'gep' and ins.res}
        for r, g in geps.items():
            if r in inl: continue
            ok = True
            for b in fn.blocks:
                for ins in b.ins:
                    for k, v in ins.__dict__.items():
                        vs = [v] if isinstance(v, V) else ([x for x in v if isinstance(x, V)] + [y for x in v if isinstance(x, tuple) for y in x if isinstance(y, V)]) if isinstance(v, list) else []
                        for x in vs:
                            if r in s.regs_in(x):
                                if ins.op in ('load', 'store') and k == 'ptr' and x.kind == 'reg': continue
                                if ins.op == 'select' and ins.res in psel and k in ('a', 'b') and x.kind == 'reg': continue
                                ok = False
            if ok: inl[r] = g
        snap = {}
        def snapshot(g):
            """returns (statements executed at the definition point, lvalue expression)"""
            stm = []; r = cid(g.res)
            base = g.base
            if base.kind == 'reg':
                o.append('  ' + s.cdecl(base.ty, 'gb_' + r) + ';'); stm.append('gb_%s = %s;' % (r, s.val(base)))
                base = V('raw', base.ty, text='gb_' + r)
            idx = []
            for k, ix in enumerate(g.idx):
                if ix.kind == 'int': idx.append(ix)
                else:
                    o.append('  int64_t gi_%s_%d;' % (r, k)); stm.append('gi_%s_%d = (int64_t)%s;' % (r, k, s.sx(ix)))
                    idx.append(V('raw', ix.ty, text='gi_%s_%d' % (r, k)))
            s.gep(g.bty, base, idx)
            return ' '.join(stm), s._gep_lvalue
        def lv(ptr, store=False):
            if ptr.kind == 'reg' and ptr.name in psel: raise NotImplementedError('nested pointer select')
            if ptr.kind == 'reg' and ptr.name in inl:
                g = inl[ptr.name]
                if g.base.kind == 'glob' and g.base.name in s.env_tables:
                    # environment table: contents are the harness's business (arbitrary / memoised); reads become calls
                    if store: raise NotImplementedError('store to environment table ' + g.base.name)
                    return envsnap[ptr.name]
                return snap[ptr.name]
            if ptr.kind == 'cexpr' and ptr.op == 'gep' and ptr.base.kind == 'glob' and ptr.base.name in s.env_tables:
                if store: raise NotImplementedError('store to environment table ' + ptr.base.name)
                return '%s(%s)' % (s.env_tables[ptr.base.name], ', '.join('(uint64_t)' + s.sx(ix) for ix in ptr.idx[1:]))
            if ptr.kind == 'glob' and ptr.name in s.env_tables:
                if store: raise NotImplementedError('store to environment table ' + ptr.name)
                return '%s()' % s.env_tables[ptr.name]
            return '*' + s.val(ptr)
        envsnap = {}
        def phi_moves(frm, to):
            tb = [b for b in fn.blocks if b.label == to][0]
            mv = []
            for ins in tb.ins:
                if ins.op != 'phi': break
                for v, lab in ins.inc:
                    if lab == frm:
                        mv.append((ins.res, v, ins.ty)); break
            if not mv: return ''
            if len(mv) == 1: return 'v_%s = %s; ' % (cid(mv[0][0]), s.val(mv[0][1]))
            r = '{ '
            for i, (res, v, ty) in enumerate(mv): r += '%s = %s; ' % (s.cdecl(ty, 't%d' % i), s.val(v))
            for i, (res, v, ty) in enumerate(mv): r += 'v_%s = t%d; ' % (cid(res), i)
            return r + '} '
        def jump(frm, to): return phi_moves(frm, to) + 'goto L_%s;' % cid(to)
        nalloca = 0
        for b in fn.blocks:
            body.append('L_%s: ;' % cid(b.label))
            for ins in b.ins:
                op = ins.op; R = ('v_' + cid(ins.res) + ' = ') if ins.res else ''
                if op == 'phi': continue
                elif op == 'bin':
                    if s.nsw and ins.flags and ins.bop in ('add', 'sub', 'mul') and 'nsw' in ins.flags:
                        n = s.resolve(ins.ty).n
                        body.append('  LL2C_NSW_CHECK_%s(%s, %s, %d);' % (ins.bop.upper(), s.signed(n, s.val(ins.a)), s.signed(n, s.val(ins.b)), n))
                    body.append('  %s%s;' % (R, s.binop(ins.bop, ins.ty, ins.a, ins.b)))
                elif op == 'fbin':
                    if ins.bop == 'frem': body.append('  %sfmod(%s, %s);' % (R, s.val(ins.a), s.val(ins.b)))
                    else:
                        suf = 'F' if isinstance(s.resolve(ins.ty), TFloat) and s.resolve(ins.ty).k == 'float' else ''
                        body.append('  %sLL2C_%s%s(%s, %s);' % (R, ins.bop.upper(), suf, s.val(ins.a), s.val(ins.b)))
                elif op == 'fneg': body.append('  %s(-%s);' % (R, s.val(ins.a)))
                elif op == 'icmp':
                    rt = s.resolve(ins.ty)
                    a, b2 = s.val(ins.a), s.val(ins.b)
                    pr = ins.pred
                    if isinstance(rt, TPtr):
                        a = '(uintptr_t)' + a; b2 = '(uintptr_t)' + b2
                        sym = {'eq': '==', 'ne': '!=', 'ult': '<', 'ule': '<=', 'ugt': '>', 'uge': '>='}[pr]
                        if pr in ('eq', 'ne'):
                            a, b2 = s.val(ins.a), '(%s)%s' % (s.cdecl(ins.ty), s.val(ins.b))
                    elif pr[0] == 's':
                        a = s.signed(rt.n, a); b2 = s.signed(rt.n, b2); sym = {'slt': '<', 'sle': '<=', 'sgt': '>', 'sge': '>='}[pr]
                    else:
                        sym = {'eq': '==', 'ne': '!=', 'ult': '<', 'ule': '<=', 'ugt': '>', 'uge': '>='}[pr]
                    body.append('  %s(%s %s %s);' % (R, a, sym, b2))
                elif op == 'fcmp':
                    a, b2 = s.val(ins.a), s.val(ins.b)
                    tbl = {'oeq': '(%s == %s)', 'ogt': '(%s > %s)', 'oge': '(%s >= %s)', 'olt': '(%s < %s)', 'ole': '(%s <= %s)',
                           'one': '(%s < %s || %s > %s)', 'ord': '(%s == %s && %s == %s)', 'uno': '(%s != %s || %s != %s)',
                           'ueq': '(!(%s < %s || %s > %s))', 'ugt': '(!(%s <= %s))', 'uge': '(!(%s < %s))', 'ult': '(!(%s >= %s))', 'ule': '(!(%s > %s))', 'une': '(%s != %s)',
                           'true': '1', 'false': '0'}
                    f = tbl[ins.pred]
                    if ins.pred in ('ord', 'uno'): e = f % (a, a, b2, b2)
                    elif f.count('%s') == 4: e = f % (a, b2, a, b2)
                    elif f.count('%s') == 2: e = f % (a, b2)
                    else: e = f
                    body.append('  %s%s;' % (R, e))
                elif op == 'cast': body.append('  %s%s;' % (R, s.cast(ins.cop, ins.src, ins.ty)))
                elif op == 'load':
                    if ins.ptr.kind == 'reg' and ins.ptr.name in psel:
                        ps = psel[ins.ptr.name]
                        body.append('  %s(gc_%s ? %s : %s);' % (R, cid(ps.res), lv(ps.a), lv(ps.b)))
                    else: body.append('  %s%s;' % (R, lv(ins.ptr)))
                elif op == 'store':
                    if ins.ptr.kind == 'reg' and ins.ptr.name in psel:
                        ps = psel[ins.ptr.name]
                        body.append('  if (gc_%s) { %s = %s; } else { %s = %s; }' % (cid(ps.res), lv(ps.a, True), s.val(ins.val), lv(ps.b, True), s.val(ins.val)))
                    else: body.append('  %s = %s;' % (lv(ins.ptr, True), s.val(ins.val)))
                elif op == 'gep':
                    if ins.res in inl:
                        stm, snap[ins.res] = snapshot(ins)
                        if stm: body.append('  ' + stm)
                        if ins.base.kind == 'glob' and ins.base.name in s.env_tables:
                            r = cid(ins.res)
                            args = ['(uint64_t)' + (s.sx(ix) if ix.kind == 'int' else 'gi_%s_%d' % (r, k)) for k, ix in enumerate(ins.idx)][1:]
                            envsnap[ins.res] = '%s(%s)' % (s.env_tables[ins.base.name], ', '.join(args))
                        continue
                    body.append('  %s%s;' % (R, s.gep(ins.bty, ins.base, ins.idx)))
                elif op == 'select':
                    if ins.res in psel:
                        o.append('  _Bool gc_%s;' % cid(ins.res)); body.append('  gc_%s = %s;' % (cid(ins.res), s.val(ins.c)))
                    else: body.append('  %s(%s ? %s : %s);' % (R, s.val(ins.c), s.val(ins.a), s.val(ins.b)))
                elif op == 'alloca':
                    nalloca += 1
                    assert ins.n is None or ins.n.kind == 'int'
                    cnt = ins.n.val if ins.n is not None else 1
                    if cnt == 1:
                        o.append('  ' + s.cdecl(ins.ty, 'a%d' % nalloca) + ';')
                        body.append('  %s&a%d;' % (R, nalloca))
                    else:
                        o.append('  ' + s.cdecl(TArr(cnt, ins.ty), 'a%d' % nalloca) + ';')
                        body.append('  %s&a%d[0];' % (R, nalloca))
                elif op in ('call', 'invoke'):
                    body.append('  ' + s.call(ins, R))
                    if op == 'invoke': body.append('  ' + jump(b.label, ins.normal))
                elif op == 'br': body.append('  ' + jump(b.label, ins.dest))
                elif op == 'cbr':
                    body.append('  if (%s) { %s } else { %s }' % (s.val(ins.c), jump(b.label, ins.a), jump(b.label, ins.b)))
                elif op == 'switch':
                    body.append('  switch (%s) {' % s.val(ins.v))
                    for cv, lab in ins.cases:
                        body.append('    case %s: { %s }' % (s.val(cv), jump(b.label, lab)))
                    body.append('    default: { %s }' % jump(b.label, ins.default))
                    body.append('  }')
                elif op == 'ret':
                    body.append('  return%s;' % ((' ' + s.val(ins.val)) if ins.val is not None else ''))
                elif op == 'unreachable': body.append('  LL2C_UNREACHABLE();')
                elif op in ('landingpad',): body.append('  LL2C_EXCEPTION_PATH();')
                elif op == 'resume': body.append('  LL2C_EXCEPTION_PATH();')
                elif op == 'extractvalue':
                    body.append('  %s%s%s;' % (R, s.val(ins.v), ''.join('.f%d' % i for i in ins.idx)))
                elif op == 'insertvalue':
                    body.append('  %s%s; v_%s%s = %s;' % (R, s.val(ins.v), cid(ins.res), ''.join('.f%d' % i for i in ins.idx), s.val(ins.e)))
                elif op == 'asm': body.append('  /* asm */;')
                elif op == 'unsupported': raise NotImplementedError('in %s: %s (%s)' % (fn.name, ins.text, ins.err))
                else: raise NotImplementedError(op)
        o += body
        o.append('}\n')
        return '\n'.join(o)

    INTR = {
        'llvm.ctpop.i64': '__builtin_popcountll', 'llvm.ctpop.i32': '__builtin_popcount',
    }
    def call(s, ins, R):
        c = ins.callee
        args = [a for a in ins.args]
        if c.kind == 'glob':
            n = c.name[1:]
            if n.startswith('llvm.'):
                A = [s.val(a) for a in args if a is not None]
                if n.startswith('llvm.lifetime') or n.startswith('llvm.dbg') or n.startswith('llvm.experimental.noalias') or n.startswith('llvm.invariant'): return ';'
                if n.startswith('llvm.assume'): return 'LL2C_ASSUME(%s);' % A[0]
                if n.startswith('llvm.ctpop'): return '%sLL2C_POPCOUNT(%s);' % (R, A[0])
                if n.startswith('llvm.cttz'): return '%sLL2C_CTTZ%d(%s);' % (R, s.resolve(ins.ty).n, A[0])
                if n.startswith('llvm.ctlz'): return '%sLL2C_CTLZ%d(%s);' % (R, s.resolve(ins.ty).n, A[0])
                if n.startswith('llvm.memcpy') or n.startswith('llvm.memmove'):
                    # whole-object copy of a typed struct (e.g. the Position copy in a constructor): emit a struct
                    # assignment, which CBMC handles per field, instead of a byte-wise copy inside a possibly huge object
                    def typed(v):
                        for _ in range(4):
                            if v.kind == 'reg' and v.name in s._defs and s._defs[v.name].op == 'cast' and s._defs[v.name].cop == 'bitcast': v = s._defs[v.name].src
                            else: break
                        t = v.ty
                        if v.kind == 'reg' and v.name in s._defs and s._defs[v.name].op == 'gep':
                            s.gep(s._defs[v.name].bty, s._defs[v.name].base, s._defs[v.name].idx); t = s._gep_result_type
                        return v, t
                    (d, dt), (sv, stt) = typed(args[0]), typed(args[1])
                    dpath = spath = ''
                    if args[2].kind == 'int' and isinstance(dt, TPtr) and isinstance(stt, TPtr):
                        # a copy into/out of the leading member(s): descend to the member whose type matches the other side
                        import layout as _lay
                        for _ in range(4):
                            if repr(dt.to) == repr(stt.to): break
                            try: dsz, ssz = _lay.size_align(s.m, dt.to)[0], _lay.size_align(s.m, stt.to)[0]
                            except Exception: break
                            if dsz > ssz and isinstance(s.resolve(dt.to), TStruct): dt = TPtr(s.resolve(dt.to).els[0]); dpath += '.f0'
                            elif ssz > dsz and isinstance(s.resolve(stt.to), TStruct): stt = TPtr(s.resolve(stt.to).els[0]); spath += '.f0'
                            else: break
                    if args[2].kind == 'int' and isinstance(dt, TPtr) and isinstance(stt, TPtr) and repr(dt.to) == repr(stt.to) and isinstance(s.resolve(dt.to), TStruct):
                        try:
                            import layout as _lay
                            sz, _ = _lay.size_align(s.m, dt.to)
                        except Exception:
                            sz = None
                        if sz == args[2].val:
                            return '(*%s)%s = (*%s)%s;' % (s.val(d), dpath, s.val(sv), spath)
                    # constant-size copy between typed integer arrays (e.g. std::copy of history keys): element-wise through a
                    # temporary (memmove semantics), unrolled -- CBMC's byte-wise memmove inside a large struct is very costly
                    if args[2].kind == 'int' and isinstance(dt, TPtr) and isinstance(stt, TPtr) and isinstance(s.resolve(dt.to), TInt) and repr(s.resolve(dt.to)) == repr(s.resolve(stt.to)):
                        w = max(1, s.resolve(dt.to).n // 8)
                        if args[2].val % w == 0 and 0 < args[2].val // w <= 512:
                            cnt = args[2].val // w; ct = s.cdecl(s.resolve(dt.to))
                            return '{ %s ll2c_tmp[%d]; %s *ll2c_s = %s; %s *ll2c_d = %s; %s %s }' % (ct, cnt, ct, s.val(sv), ct, s.val(d),
                                   ' '.join('ll2c_tmp[%d] = ll2c_s[%d];' % (k, k) for k in range(cnt)), ' '.join('ll2c_d[%d] = ll2c_tmp[%d];' % (k, k) for k in range(cnt)))
                    # variable-length copy between typed integer arrays (e.g. the PV copy of add_new_move_to_pv_list): an element loop on
                    # typed pointers instead of CBMC's byte-wise memmove over the enclosing (large) object; memcpy only (no overlap)
                    if n.startswith('llvm.memcpy') and args[2].kind != 'int' and isinstance(dt, TPtr) and isinstance(stt, TPtr) and isinstance(s.resolve(dt.to), TInt) and repr(s.resolve(dt.to)) == repr(s.resolve(stt.to)):
                        w = max(1, s.resolve(dt.to).n // 8); ct = s.cdecl(s.resolve(dt.to))
                        return ('{ %s *ll2c_d = %s; %s *ll2c_s = %s; uint64_t ll2c_n = (uint64_t)%s; LL2C_ASSUME_OR_ASSERT(ll2c_n %% %d == 0); '
                                'for (uint64_t ll2c_k = 0; ll2c_k < ll2c_n / %d; ll2c_k++) ll2c_d[ll2c_k] = ll2c_s[ll2c_k]; }' % (ct, s.val(d), ct, s.val(sv), A[2], w, w))
                    return 'memmove(%s, %s, %s);' % (A[0], A[1], A[2])
                if n.startswith('llvm.memset'): return 'LL2C_MEMSET(%s, %s, %s);' % (A[0], A[1], A[2])
                for nm in ('umin', 'umax'):
                    if n.startswith('llvm.' + nm): return '%s(%s %s %s ? %s : %s);' % (R, A[0], '<' if nm == 'umin' else '>', A[1], A[0], A[1])
                for nm in ('smin', 'smax'):
                    if n.startswith('llvm.' + nm):
                        w = s.resolve(ins.ty).n
                        return '%s(%s %s %s ? %s : %s);' % (R, s.signed(w, A[0]), '<' if nm == 'smin' else '>', s.signed(w, A[1]), A[0], A[1])
                if n.startswith('llvm.abs'):
                    w = s.resolve(ins.ty).n
                    return '%s(%s)(%s < 0 ? -%s : %s);' % (R, s.cdecl(ins.ty), s.signed(w, A[0]), s.signed(w, A[0]), s.signed(w, A[0]))
                if n.startswith('llvm.fabs'): return '%sfabs(%s);' % (R, A[0])
                if n.startswith('llvm.floor'): return '%sfloor(%s);' % (R, A[0])
                if n.startswith('llvm.fmuladd'): return '%s(%s * %s + %s);' % (R, A[0], A[1], A[2])
                if n.startswith('llvm.trap'): return 'LL2C_UNREACHABLE();'
                raise NotImplementedError(n)
            fn = s.gname(c.name)
        else:
            fn = '(%s)' % s.val(c)
        return '%s%s(%s);' % (R, fn, ', '.join(s.val(a) for a in args if a is not None))

    def emit(s, entries, extra_globals=()):
        s.gl_used = set(extra_globals)
        fl = s.reachable(entries)
        # globals referenced by global initialisers
        work = []
        changed = True
        while changed:
            changed = False
            for g in list(s.gl_used):
                ty, init, const = s.m.globals.get(g, (None, None, None))
                if init is not None:
                    before = len(s.gl_used)
                    s.collect_globs(init, work)
                    if len(s.gl_used) != before: changed = True
        for f in work:
            if f not in fl: fl += s.reachable([f])
        funcs = []
        for f in fl:
            fn = s.m.funcs[f]
            if fn.decl or f in s.stubs: continue
            funcs.append(s.emit_func(fn))
        protos = []
        for f in fl:
            fn = s.m.funcs[f]
            if f[1:].startswith('llvm.'): continue
            protos.append(s.proto(fn) + ';' + ('  /* EXTERNAL */' if fn.decl else ('  /* STUBBED */' if f in s.stubs else '')))
        gl = []
        for g in sorted(s.gl_used):
            if g not in s.m.globals or g in s.env_tables:
                continue
            ty, init, const = s.m.globals[g]
            name = s.gname(g)
            if cid(g) in s.overrides:
                gl.append(s.cdecl(ty, name) + ' = ' + s.overrides[cid(g)] + ';')
            elif init is None:
                gl.append('extern ' + s.cdecl(ty, name) + ';')
            else:
                gl.append(s.cdecl(ty, name) + ' = ' + s.const_init(init, ty) + ';')
        # struct definitions (after emission so that literal structs are known): order by dependency
        defs = []
        done = set()
        def need(t, byval=True):
            if isinstance(t, TNamed):
                if t.name in done: return
                d = s.m.types.get(t.name)
                if d is None: return
                if not byval: return
                done.add(t.name)
                for e in d.els: need(e)
                defs.append('%s { %s }%s;' % (s.structname(t), ' '.join(s.cdecl(e, 'f%d' % i) + ';' for i, e in enumerate(d.els)) or 'char dummy;', ' __attribute__((packed))' if d.packed else ''))
            elif isinstance(t, TStruct):
                key = repr(t)
                if key in done: return
                done.add(key)
                for e in t.els: need(e)
                defs.append('%s { %s }%s;' % (s.structname(t), ' '.join(s.cdecl(e, 'f%d' % i) + ';' for i, e in enumerate(t.els)) or 'char dummy;', ' __attribute__((packed))' if t.packed else ''))
            elif isinstance(t, TArr): need(t.el)
            elif isinstance(t, TPtr): need(t.to, False) if not isinstance(t.to, (TStruct,)) else need(t.to)
            elif isinstance(t, TFunc):
                need(t.ret, False)
                for x in t.params: need(x, False)
        # forward declare all named
        fwd = ['struct S_%s;' % cid(n) for n in s.m.types]
        for n in sorted(s.seen_named): need(TNamed(n))
        for k, (nm, t) in list(s.lit.items()): need(t)
        ext = []
        for g in sorted(s.gl_used):
            if g in s.m.globals and g not in s.env_tables: ext.append('extern ' + s.cdecl(s.m.globals[g][0], s.gname(g)) + ';')
        for g, fnm in s.env_tables.items():
            if g not in s.m.globals: continue
            t = s.m.globals[g][0]; nd = 0
            while isinstance(s.resolve(t), TArr): t = s.resolve(t).el; nd += 1
            protos.append(s.cdecl(t, '%s(%s)' % (fnm, ', '.join(['uint64_t'] * nd) or 'void')) + ';  /* ENVIRONMENT TABLE %s */' % g)
        s.header = '\n'.join(['#include "ll2c_rt.h"'] + fwd + defs + [''] + protos + [''] + ext + [''])
        return '\n'.join(['#include "ll2c_rt.h"'] + fwd + defs + [''] + protos + [''] + gl + [''] + funcs)

def main():
    ap = argparse.ArgumentParser()
    ap.add_argument('ll'); ap.add_argument('--entry', action='append', default=[]); ap.add_argument('--stub', action='append', default=[])
    ap.add_argument('--override', action='append', default=[]); ap.add_argument('-o', required=True); ap.add_argument('--header'); ap.add_argument('--nsw', action='store_true')
    a = ap.parse_args()
    m = parse_module(open(a.ll).read())
    ov = {}
    for x in a.override:
        k, f = x.split('=', 1); ov[k] = open(f).read().strip()
    def full(n):
        if '@' + n in m.funcs: return '@' + n
        c = [k for k in m.funcs if n in k]
        if len(c) != 1: raise SystemExit('ambiguous/unknown function %s: %s' % (n, c[:10]))
        return c[0]
    em = Emitter(m, [full(x) for x in a.stub], ov, a.nsw)
    open(a.o, 'w').write(em.emit([full(x) for x in a.entry]))
    if a.header: open(a.header, 'w').write(em.header)

if __name__ == '__main__':
    main()
