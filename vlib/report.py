"""Classification of solver verdicts, known-finding handling, evidence and exit status (shared by all checks)."""
import os, json, time
from pipeline import VERIF, Broken, known_findings, write_evidence


def finish(ctx, results, witnesses, replay=None, assumptions=(), bounds=None, rule='', extra=None, technique=''):
    """results: main queries (must be UNSAT = 'pass'); witnesses: -DWITNESS twins (their assert(0) must FAIL).
    replay(ctx, result) -> dict(confirmed=True|False|None, key=str, text=str, path=str|None)"""
    bounds = bounds or {}
    broken = []
    for w in witnesses:
        ok = w.status == 'fail' and any('witness' in d for _, d in w.failed)
        if not ok:
            broken.append('vacuity guard: witness twin %s did not reach its assert(0) (%s %s)' % (w.q.name, w.status, w.failed[:2]))
    kf = known_findings(ctx.pid)
    known_keys = {k: t for kind, k, t in kf if kind == 'known'}
    passed, inconclusive, viol, known_hit, unconfirmed = [], [], [], [], []
    for r in results:
        if r.status == 'pass': passed.append(r)
        elif r.status == 'fail':
            info = {'confirmed': None, 'key': None, 'text': '; '.join(d for _, d in r.failed[:3]), 'path': None}
            if getattr(r, 'notrace', False):
                info.update({'confirmed': None, 'strict': True, 'key': 'no-trace', 'text': info['text'] + ' | the solver reports a counterexample but the trace run did not finish within its budget: nothing to replay'})
            elif replay is not None:
                try:
                    got = replay(ctx, r)
                    if got: info.update(got)
                except Broken as e:
                    broken.append('replay of %s failed: %s' % (r.q.name, e))
                    continue
            if info['confirmed'] is False:
                broken.append('counterexample of %s does not reproduce against the native build (encoding disagreement): %s' % (r.q.name, info['text']))
            elif info['confirmed'] is None:
                unconfirmed.append((r, info))
            elif info['key'] in known_keys:
                known_hit.append((r, info))
            else:
                viol.append((r, info))
        else:
            inconclusive.append(r)
    # a known finding that no longer shows up is fine (someone fixed it); one that shows up is announced
    for r, info in known_hit:
        print('KNOWN-FINDING: property=%s %s' % (ctx.pid, known_keys[info['key']]), flush=True)
    for r, info in viol:
        print('VIOLATION property=%s replay=%s' % (ctx.pid, info['path'] or 'none'), flush=True)
        print('  query %s: %s' % (r.q.name, info['text']), flush=True)
    for r, info in unconfirmed:
        # failures that no native run can confirm (e.g. an out-of-bounds pointer formed but not trapped): reported, and
        # counted as violations only when the check asked for that (info['strict'])
        print('UNCONFIRMED-COUNTEREXAMPLE property=%s query=%s %s' % (ctx.pid, r.q.name, info['text']), flush=True)
    strict_unconf = [x for x in unconfirmed if x[1].get('strict')]
    for r, info in strict_unconf:
        print('VIOLATION property=%s replay=%s' % (ctx.pid, info['path'] or 'none'), flush=True)
    nviol = len(viol) + len(strict_unconf)
    wit_ok = {w.q.meta.get('of', w.q.name) for w in witnesses if w.status == 'fail'}
    samples = []
    for r in (results[:6] + [x[0] for x in viol[:3]]):
        d = dict(r.q.sample); d.update({'query': r.q.name, 'verdict': r.status, 'solver_s': round(r.wall, 1), 'unwindset': r.unwindset})
        samples.append(d)
    cov = {
        'evaluations': len(results) + len(witnesses),
        'distinct_nontrivial': len({r.q.name for r in passed if (not witnesses) or r.q.meta.get('wit', r.q.name) in wit_ok}),
        'rule': rule or 'one solver query per listed (harness, parameter) instance; a query counts as non-trivial when it was '
                        'discharged UNSAT with unwinding assertions passing and its -DWITNESS twin proved the assertions reachable',
        'samples': samples,
        'obligations': len(results), 'discharged': len(passed), 'inconclusive': [(r.q.name, r.status) for r in inconclusive],
        'counterexamples_confirmed_by_replay': len(viol) + len(known_hit),
        'counterexamples_unconfirmed': [(r.q.name, i['text']) for r, i in unconfirmed],
        'known_findings_reproduced': [i['key'] for r, i in known_hit],
        'witness_twins': {'run': len(witnesses), 'reached': sum(1 for w in witnesses if w.status == 'fail')},
        'functions_encoded': sorted(ctx.encoded), 'functions_stubbed_or_external': sorted(ctx.stubbed),
        'bounds': bounds, 'solver': 'cbmc 6.11 + kissat (external SAT) unless noted', 'solver_time_s': round(ctx.solver_time, 1),
        'max_rss_mb': max([r.rss_mb for r in results + witnesses] or [0]),
        'max_formula': {'variables': max([r.vars or 0 for r in results] or [0]), 'clauses': max([r.clauses or 0 for r in results] or [0])},
        'checker_cmd': 'cbmc <goto-binary> --function <harness> --unwindset <per-loop> --unwinding-assertions --drop-unused-functions '
                       '--undefined-shift-check --signed-overflow-check --trace --external-sat-solver kissat',
        'notes': ctx.notes, 'broken': broken,
    }
    if extra: cov.update(extra)
    write_evidence(ctx, 'model_checking', cov, list(assumptions), nviol)
    ctx.say('%s %s: %d/%d obligations discharged, %d inconclusive, %d violations, %d known findings, %d broken; wall %.0fs solver %.0fs'
            % (ctx.pid, ctx.tier, len(passed), len(results), len(inconclusive), nviol, len(known_hit), len(broken), time.time() - ctx.t0, ctx.solver_time))
    if nviol: return 1
    if broken:
        for b in broken: ctx.say('BROKEN: ' + b)
        return 2
    if results and not passed and not known_hit:
        ctx.say('BROKEN: no obligation could be discharged (all inconclusive)')
        return 2
    return 0


def save_replay(ctx, name, obj):
    d = os.path.join(VERIF, 'replays'); os.makedirs(d, exist_ok=True)
    p = os.path.join(d, '%s_%s.json' % (ctx.pid, name))
    json.dump(obj, open(p, 'w'), indent=1, sort_keys=True)
    return p
