"""Shared machinery: /repo sources -> LLVM IR -> C (ll2c) -> goto binary -> CBMC queries -> evidence.

Everything is regenerated from /repo's *working tree* inside a private work directory that is removed on
every exit path.  Nothing is cached between runs.
"""
import os, sys, re, json, time, shutil, subprocess, threading, resource, signal, hashlib, random
from concurrent.futures import ThreadPoolExecutor, as_completed

VERIF = os.path.dirname(os.path.dirname(os.path.abspath(__file__)))
REPO = os.environ.get('VERIF_REPO', '/repo')
ENGINE = os.path.join(REPO, 'engine')
sys.path.insert(0, os.path.join(VERIF, 'vlib'))
import ll2c

NCPU = int(os.environ.get('VERIF_JOBS', os.cpu_count() or 4))
CLANG_FLAGS = ['-std=c++20', '-O1', '-fno-inline', '-fno-vectorize', '-fno-slp-vectorize', '-fno-unroll-loops',
               '-DNDEBUG', '-DLOG_LEVEL=0', '-S', '-emit-llvm', '-w']
GXX_FLAGS = ['-std=c++20', '-O1', '-DNDEBUG', '-DLOG_LEVEL=0', '-w']
CBMC_FLAGS = ['--unwinding-assertions', '--drop-unused-functions', '--undefined-shift-check', '--signed-overflow-check',
              '--no-malloc-may-fail', '--object-bits', '12', '--verbosity', '6']


DEFAULT_UNWIND = 5


class Broken(Exception):
    """the check machinery itself failed (tool error, translator mismatch, vacuous harness...)"""


class Result:
    def __init__(s, q):
        s.q = q; s.status = None; s.failed = []; s.unwind = []; s.wall = 0.0; s.rss_mb = 0; s.out = ''; s.vars = None; s.clauses = None
        s.rounds = 0; s.unwindset = dict(q.unwindset)
    def ce(s, prop=None):
        """values of ce_* harness variables in the counterexample trace (last assignment wins); with prop, only the
        trace printed for the failed property whose description contains prop"""
        vals = {}
        text = s.out
        if prop:
            names = [n for n, d in s.failed if prop in d]
            secs = re.split(r'^Trace for ', text, flags=re.M)
            pick = [x for x in secs[1:] if any(x.startswith(n + ':') for n in names)]
            if pick: text = pick[0]
        for m in re.finditer(r'^\s+(ce_\w+)((?:\[\d+l?\])*)=(-?\d+|TRUE|FALSE)', text, re.M):
            name, idx, v = m.group(1), m.group(2), m.group(3)
            v = 1 if v == 'TRUE' else 0 if v == 'FALSE' else int(v)
            if idx:
                ii = tuple(int(x) for x in re.findall(r'\d+', idx))
                vals.setdefault(name, {})[ii if len(ii) > 1 else ii[0]] = v
            else:
                vals[name] = v
        # whole-array assignments: ce_x={ 1, 2, 3 }
        for m in re.finditer(r'^\s+(ce_\w+)=\{([^{}]*)\}', text, re.M):
            try:
                arr = [int(re.match(r'\s*(-?\d+)', x).group(1)) for x in m.group(2).split(',') if x.strip()]
                d = vals.setdefault(m.group(1), {})
                if isinstance(d, dict):
                    for i, v in enumerate(arr): d.setdefault(i, v)
            except Exception:
                pass
        return vals


class Query:
    def __init__(s, name, binary, function, unwindset=None, timeout=300, sample=None, expect='pass', solver='kissat',
                 extra=None, max_unwind=None, meta=None):
        s.name = name; s.binary = binary; s.function = function; s.unwindset = dict(unwindset or {}); s.timeout = timeout
        s.sample = sample if sample is not None else {'harness': function}; s.expect = expect; s.solver = solver
        s.extra = list(extra or []); s.max_unwind = max_unwind or {}; s.meta = meta or {}


class Ctx:
    def __init__(s, pid, tier):
        s.pid = pid; s.tier = tier
        s.seed = int(os.environ.get('VERIF_SEED', '0') or 0)
        s.t0 = time.time()
        base = os.environ.get('VERIF_WORK', '/var/tmp')
        s.work = os.path.join(base, 'verif-%s-%d' % (pid, os.getpid()))
        shutil.rmtree(s.work, ignore_errors=True)
        os.makedirs(s.work)
        s.log = open(os.path.join(s.work, 'log.txt'), 'w')
        s._ir = {}; s._mod = {}; s._lock = threading.Lock(); s._native = {}
        s.cfg = os.path.join(s.work, 'cfg'); os.makedirs(s.cfg)
        with open(os.path.join(s.cfg, 'chessplusplusConfig.h'), 'w') as f:
            f.write('#define CHESSPLUSPLUS_VERSION "verif"\n#define ENGINE_NAME "chessplusplus"\n')
        s.solver_time = 0.0; s.queries = []; s.encoded = set(); s.stubbed = set(); s.notes = []

    # ---------------------------------------------------------------- utils
    def cleanup(s):
        try: s.log.close()
        except Exception: pass
        if not os.environ.get('VERIF_KEEP'):
            shutil.rmtree(s.work, ignore_errors=True)

    def say(s, *a):
        msg = ' '.join(str(x) for x in a)
        print(msg, flush=True)
        s.log.write(msg + '\n'); s.log.flush()

    def sh(s, cmd, timeout=600, cwd=None, ok=(0,), env=None):
        t = time.time()
        p = subprocess.run(cmd, cwd=cwd or s.work, stdout=subprocess.PIPE, stderr=subprocess.STDOUT, timeout=timeout, env=env)
        out = p.stdout.decode('utf-8', 'replace')
        s.log.write('$ %s  [%d, %.1fs]\n' % (' '.join(cmd)[:400], p.returncode, time.time() - t))
        if p.returncode not in ok:
            s.log.write(out[-4000:] + '\n')
            raise Broken('command failed (%d): %s\n%s' % (p.returncode, ' '.join(cmd)[:300], out[-3000:]))
        return out

    def path(s, *a): return os.path.join(s.work, *a)

    # ---------------------------------------------------------------- IR
    def ir(s, tu, extra_src=None):
        """compile one translation unit of /repo/engine (or an auxiliary .cpp given by path) to textual IR"""
        nopic = bool(getattr(s, 'nopic', False))     # -fno-pic keeps constant string tables as plain pointer arrays (PIC code turns them into relative-offset tables read through llvm.load.relative)
        key = (extra_src or tu) + (':nopic' if nopic else '')
        with s._lock:
            if key in s._ir: return s._ir[key]
        src = extra_src or os.path.join(ENGINE, tu + '.cpp')
        if not os.path.exists(src): raise Broken('source file missing: ' + src)
        out = s.path(os.path.basename(src).replace('.cpp', '') + ('_nopic' if nopic else '') + '.ll')
        s.sh(['clang++-14'] + CLANG_FLAGS + (['-fno-pic'] if nopic else []) + ['-I', ENGINE, '-I', s.cfg, '-I', os.path.join(VERIF, 'native'), src, '-o', out])
        with s._lock: s._ir[key] = out
        return out

    def module(s, tus, aux=(), tag=''):
        """parsed, linked module of the given TUs (names without .cpp) plus auxiliary verif-side .cpp files"""
        key = (tuple(tus), tuple(aux), tag)
        if key in s._mod: return s._mod[key]
        with ThreadPoolExecutor(NCPU) as ex:
            paths = list(ex.map(s.ir, tus)) + list(ex.map(lambda a: s.ir(None, a), aux))
        linked = s.path('mod_%s.ll' % hashlib.md5(repr(key).encode()).hexdigest()[:8])
        if len(paths) == 1: shutil.copy(paths[0], linked)
        else: s.sh(['llvm-link-14', '-S', '-o', linked] + paths)
        m = ll2c.parse_module(open(linked).read())
        s._mod[key] = m
        return m

    def find(s, m, pat, must=True):
        """full IR name of the unique function whose mangled name contains `pat` (or equals it)"""
        if '@' + pat in m.funcs: return '@' + pat
        c = [k for k in m.funcs if pat in k]
        if len(c) == 1: return c[0]
        ex = [k for k in c if k == '@' + pat]
        if ex: return ex[0]
        if must: raise Broken('function %r not found uniquely in IR (renamed/removed?): %s' % (pat, c[:8]))
        return None

    def translate(s, m, entries, stubs=(), overrides=None, out='eng', prefix='', keep=(), opt_stubs=(), globals_=(), env_tables=None, def_rename=None):
        ent = [s.find(m, e) for e in entries]
        st = [s.find(m, e) for e in stubs] + [x for x in (s.find(m, e, False) for e in opt_stubs) if x]
        em = ll2c.Emitter(m, st, overrides or {}, False, prefix=prefix, keep=[s.find(m, k, False) or k for k in keep])
        for k, v in (def_rename or {}).items(): em.def_rename[s.find(m, k)] = v
        for k, v in (env_tables or {}).items():
            c2 = [g for g in m.globals if k in g]
            if len(c2) != 1: raise Broken('environment table %r not found uniquely in IR' % k)
            em.env_tables[c2[0]] = v
        try:
            gl = []
            for g in globals_:
                c = [k for k in m.globals if g in k]
                if len(c) != 1: raise Broken('global %r not found uniquely in IR: %s' % (g, c[:6]))
                gl.append(c[0])
            code = em.emit(ent, gl)
        except (NotImplementedError, KeyError, AssertionError) as e:
            raise Broken('translator cannot lower the code: %r' % (e,))
        c = s.path(out + '.c'); h = s.path(out + '.h')
        open(c, 'w').write(code); open(h, 'w').write(em.header)
        fl = em.reachable(ent)
        info = {'translated': sorted(f[1:] for f in fl if not m.funcs[f].decl and f not in em.stubs),
                'stubbed': sorted(f[1:] for f in fl if f in em.stubs),
                'external': sorted(f[1:] for f in fl if m.funcs[f].decl and not f[1:].startswith('llvm.') and f not in em.stubs)}
        if not prefix:
            s.encoded.update(info['translated']); s.stubbed.update(info['stubbed'] + info['external'])
        return c, h, info

    # ---------------------------------------------------------------- native builds
    def native_objs(s, tus):
        """g++ objects of real engine TUs (for table dumps, translator validation and replay)"""
        def one(tu):
            with s._lock:
                if tu in s._native: return s._native[tu]
            o = s.path('n_' + tu + '.o')
            s.sh(['g++'] + GXX_FLAGS + ['-I', ENGINE, '-I', s.cfg, '-c', os.path.join(ENGINE, tu + '.cpp'), '-o', o], timeout=900)
            with s._lock: s._native[tu] = o
            return o
        with ThreadPoolExecutor(NCPU) as ex:
            return list(ex.map(one, tus))

    def native_bin(s, name, srcs, tus, defines=(), libs=(), lang_c=()):
        objs = s.native_objs(tus)
        cobjs = []
        for c in lang_c:
            o = s.path('nc_' + os.path.basename(c) + '.o')
            s.sh(['gcc', '-O1', '-w', '-I', os.path.join(VERIF, 'rt'), '-I', s.work, '-c', c, '-o', o] + ['-D' + d for d in defines])
            cobjs.append(o)
        exe = s.path(name)
        s.sh(['g++'] + GXX_FLAGS + ['-I', ENGINE, '-I', s.cfg, '-I', os.path.join(VERIF, 'native'), '-I', os.path.join(VERIF, 'rt'), '-I', s.work]
             + ['-D' + d for d in defines] + list(srcs) + cobjs + objs + ['-o', exe, '-lpthread'] + list(libs), timeout=900)
        return exe

    def dump_tables(s):
        """run the real move_bitboards::init()/bitbase::init() natively and return C initialisers for the tables"""
        if hasattr(s, '_tables'): return s._tables
        d = s.path('ov'); os.makedirs(d, exist_ok=True)
        exe = s.native_bin('dump', [os.path.join(VERIF, 'native', 'dump.cpp')], ['move_bitboards', 'bitbase', 'bithacks', 'types'])
        s.sh([exe, d])
        s._tables = {f[:-5]: open(os.path.join(d, f)).read().strip() for f in os.listdir(d) if f.endswith('.init')}
        return s._tables

    # ---------------------------------------------------------------- goto-cc / cbmc
    def gotocc(s, name, sources, defines=(), includes=()):
        out = s.path(name + '.gb')
        cmd = ['goto-cc', '-o', out, '-I', os.path.join(VERIF, 'rt'), '-I', os.path.join(VERIF, 'harness'), '-I', s.work]
        for i in includes: cmd += ['-I', i]
        cmd += ['-D' + d for d in defines] + list(sources)
        s.sh(cmd, timeout=900)
        return out

    def _cbmc_once(s, q, unwindset, timeout, trace=False):
        cmd = ['cbmc', q.binary, '--function', q.function] + CBMC_FLAGS + q.extra + (['--trace'] if trace else [])
        cmd += ['--unwind', str(DEFAULT_UNWIND)]      # loops not named in the unwindset: small default, raised adaptively
        if unwindset: cmd += ['--unwindset', ','.join('%s:%d' % kv for kv in sorted(unwindset.items()))]
        if q.solver == 'kissat': cmd += ['--external-sat-solver', 'kissat']
        elif q.solver == 'cadical': cmd += ['--sat-solver', 'cadical']
        memcap = int(os.environ.get('VERIF_MEM_GB', '0') or 0) or max(4, int(56 / max(1, min(NCPU, s._par))))
        def pre():
            os.setsid()
            resource.setrlimit(resource.RLIMIT_AS, (memcap << 30, memcap << 30))
        t = time.time()
        p = subprocess.Popen(['/usr/bin/time', '-f', 'MAXRSS_KB %M'] + cmd, cwd=s.work, stdout=subprocess.PIPE, stderr=subprocess.STDOUT, preexec_fn=pre)
        try:
            out, _ = p.communicate(timeout=timeout)
            to = False
        except subprocess.TimeoutExpired:
            try: os.killpg(p.pid, signal.SIGKILL)
            except Exception: pass
            out, _ = p.communicate(); to = True
        wall = time.time() - t
        out = out.decode('utf-8', 'replace')
        s.log.write('$ %s  [%s, %.1fs]\n' % (' '.join(cmd), 'TIMEOUT' if to else p.returncode, wall))
        return out, p.returncode, to, wall

    def run_query(s, q):
        r = Result(q)
        us = dict(q.unwindset)
        deadline = time.time() + q.timeout
        while True:
            r.rounds += 1
            left = deadline - time.time()
            if left <= 1: r.status = 'timeout'; break
            out, rc, to, wall = s._cbmc_once(q, us, left)
            r.wall += wall; r.out = out
            m = re.search(r'MAXRSS_KB (\d+)', out)
            if m: r.rss_mb = max(r.rss_mb, int(m.group(1)) // 1024)
            m = re.search(r'(\d+) variables, (\d+) clauses', out)
            if m: r.vars, r.clauses = int(m.group(1)), int(m.group(2))
            if to: r.status = 'timeout'; break
            if 'VERIFICATION SUCCESSFUL' in out: r.status = 'pass'; break
            if 'VERIFICATION FAILED' in out:
                fails = re.findall(r'^\[([^\]]+)\] (?:line \d+ )?(.*?): FAILURE$', out, re.M)
                unw = [f for f in fails if '.unwind.' in f[0] or 'unwinding assertion' in f[1]]
                if unw:
                    grew = False
                    for name, desc in unw:
                        m2 = re.match(r'(.+)\.unwind\.(\d+)$', name)
                        if not m2: continue
                        lid = '%s.%s' % (m2.group(1), m2.group(2))
                        cur = us.get(lid, DEFAULT_UNWIND)
                        cap = q.max_unwind.get(lid, q.max_unwind.get('*', 70))
                        new = min(cap, max(cur + 1, int(cur * 1.5) + 1))
                        if new > cur: us[lid] = new; grew = True
                    other = [f for f in fails if f not in unw]
                    if other:
                        # a real assertion failed even with truncated loops: a genuine counterexample path (unwinding
                        # assertions only cut paths, they never add any)
                        r.status = 'fail'; r.failed = other; break
                    if grew: continue
                    r.status = 'unwind'; r.unwind = unw; break
                r.status = 'fail'; r.failed = fails; break
            r.status = 'error'
            if 'Out of memory' in out or 'std::bad_alloc' in out or rc in (-9, 137, 134): r.status = 'oom'
            break
        r.unwindset = us
        if r.status == 'fail' and q.expect != 'witness':
            # counterexample wanted: re-run once with --trace (traces of the big tables are slow to print, so not by default)
            # the re-run gets a fresh budget of its own (same formula, so about the same solver time as the first run)
            out, rc, to, wall = s._cbmc_once(q, us, max(q.timeout, 60), trace=True)
            r.wall += wall
            if not to and 'VERIFICATION FAILED' in out: r.out = out
            else: r.notrace = True     # verdict FAILED stands, but there is no assignment to replay
        return r

    def run_queries(s, queries, par=None, label=''):
        par = par or NCPU
        s._par = min(par, max(1, len(queries)))
        results = []
        t = time.time()
        with ThreadPoolExecutor(s._par) as ex:
            futs = {ex.submit(s.run_query, q): q for q in queries}
            done = 0
            for f in as_completed(futs):
                r = f.result(); results.append(r); done += 1
                s.solver_time += r.wall
                s.say('  [%s %d/%d] %-44s %-7s %6.1fs %5d MB%s' % (label, done, len(queries), r.q.name, r.status, r.wall, r.rss_mb,
                      ('  ' + '; '.join(d for _, d in r.failed[:3])) if r.failed else ''))
        results.sort(key=lambda r: r.q.name)
        s.queries += results
        return results


# ---------------------------------------------------------------------------------------------------------------
def known_findings(pid):
    """entries of /verif/known_findings.txt for this property: list of (kind, key, text); kind in {'known','fixed'}"""
    out = []
    p = os.path.join(VERIF, 'known_findings.txt')
    if not os.path.exists(p): return out
    for line in open(p):
        line = line.strip()
        if not line or line.startswith('#'): continue
        m = re.match(r'(known|fixed): property=(\w+)\s+(?:key=(\S+)\s+)?(.*)$', line)
        if m and m.group(2) == pid: out.append((m.group(1), m.group(3), m.group(4)))
    return out


def write_evidence(ctx, level, coverage, assumptions, violations):
    ev = {'property_id': ctx.pid, 'tier': ctx.tier, 'seed': ctx.seed, 'level': level, 'coverage': coverage,
          'assumptions': assumptions, 'wall_s': round(time.time() - ctx.t0, 1), 'violations': violations}
    d = os.path.join(VERIF, 'evidence'); os.makedirs(d, exist_ok=True)
    tmp = os.path.join(d, '.%s.json.tmp' % ctx.pid)
    json.dump(ev, open(tmp, 'w'), indent=1, sort_keys=True)
    os.replace(tmp, os.path.join(d, ctx.pid + '.json'))
