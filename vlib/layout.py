"""Field-name -> fN mapping for structs of the translated code.

ll2c names struct members f0, f1, ... in IR order.  Harnesses must not hard-code those indices (a reordered or
added member in /repo would silently shift them), so the mapping is derived on every run: g++ computes
offsetof(Class, member) from /repo's headers, Python computes the offset of every IR field with the x86-64
data layout, and equal offsets are matched.  The result is a header of #defines (POS_board -> f3, ...)."""
import os
import ll2c
from pipeline import Broken, ENGINE


def size_align(m, t):
    if isinstance(t, ll2c.TNamed): t = m.types.get(t.name)
    if isinstance(t, ll2c.TInt):
        n = max(1, (t.n + 7) // 8)
        for w in (1, 2, 4, 8, 16):
            if n <= w: return w, min(w, 16)
    if isinstance(t, ll2c.TFloat): return {'float': (4, 4), 'double': (8, 8)}.get(t.k, (16, 16))
    if isinstance(t, ll2c.TPtr): return 8, 8
    if isinstance(t, ll2c.TArr):
        sz, al = size_align(m, t.el); return sz * t.n, al
    if isinstance(t, ll2c.TStruct):
        off = 0; mal = 1
        for e in t.els:
            sz, al = size_align(m, e)
            if t.packed: al = 1
            off = (off + al - 1) // al * al + sz; mal = max(mal, al)
        return (off + mal - 1) // mal * mal, mal
    raise Broken('layout: cannot size %r' % (t,))


def field_offsets(m, irname):
    t = m.types.get(irname)
    if t is None: raise Broken('layout: IR type %s not found' % irname)
    offs = []; off = 0
    for e in t.els:
        sz, al = size_align(m, e)
        if t.packed: al = 1
        off = (off + al - 1) // al * al
        offs.append(off); off += sz
    return offs


def field_header(ctx, m, specs, headers, out='fields.h'):
    """specs: list of (macro_prefix, C++ class, IR type name, [members]).  Writes ctx.path(out)."""
    src = ctx.path('offsets.cpp')
    with open(src, 'w') as f:
        for h in headers: f.write('#include "%s"\n' % h)
        f.write('#include <cstdio>\n#include <cstddef>\nusing namespace engine;\nint main() {\n')
        for pre, cls, irn, members in specs:
            for mem in members:
                f.write('  printf("%s %s %%zu\\n", offsetof(%s, %s));\n' % (pre, mem, cls, mem))
            f.write('  printf("%s __sizeof %%zu\\n", sizeof(%s));\n' % (pre, cls))
        f.write('  return 0;\n}\n')
    exe = ctx.path('offsets')
    ctx.sh(['g++', '-std=c++20', '-fno-access-control', '-Wno-invalid-offsetof', '-w', '-DNDEBUG', '-DLOG_LEVEL=0', '-I', ENGINE, '-I', ctx.cfg, src, '-o', exe])
    txt = ctx.sh([exe])
    native = {}
    for line in txt.split('\n'):
        p = line.split()
        if len(p) == 3: native[(p[0], p[1])] = int(p[2])
    lines = ['/* generated on every run from /repo headers: member name -> ll2c field index */']
    mapping = {}
    for pre, cls, irn, members in specs:
        offs = field_offsets(m, irn)
        sz, _ = size_align(m, ll2c.TNamed(irn))
        if native[(pre, '__sizeof')] != sz:
            raise Broken('layout: sizeof(%s) native %d != IR %d' % (cls, native[(pre, '__sizeof')], sz))
        for mem in members:
            o = native[(pre, mem)]
            if o not in offs: raise Broken('layout: no IR field of %s at offset %d (%s)' % (irn, o, mem))
            idx = offs.index(o)
            mapping[(pre, mem)] = idx
            lines.append('#define %s_%s f%d' % (pre.rstrip('_'), mem.lstrip('_'), idx))
    open(ctx.path(out), 'w').write('\n'.join(lines) + '\n')
    return mapping

POSITION_FIELDS = ('POS', 'Position', '%"class.engine::Position"',
                   ['_current_side', '_half_move_counter', '_ply_counter', '_board', '_piece_position', '_piece_count',
                    '_by_piece_kind_bb', '_by_color_bb', '_castling_rights', '_enpassant_square', '_zobrist_hash',
                    '_history_counter', '_history'])
HASHKEY_FIELDS = ('HK', 'HashKey', '%"class.engine::HashKey"',
                  ['_piece_key', '_pawn_key', '_enpassant_key', '_castling_key', '_color_key'])
