"""Counterexample (ce_* harness variables) -> FEN."""
LET = ' PNBRQKpnbrqk'
def from_ce(ce):
    n = ce.get('ce_n', 0); pcs = ce.get('ce_pc', {}); sqs = ce.get('ce_sq', {})
    board = [0] * 64
    for i in range(n):
        board[sqs.get(i, 0) & 63] = pcs.get(i, 0)
    rows = []
    for r in range(7, -1, -1):
        row = ''; e = 0
        for f in range(8):
            p = board[r * 8 + f]
            if p == 0: e += 1
            else:
                if e: row += str(e); e = 0
                row += LET[p]
        if e: row += str(e)
        rows.append(row)
    side = ce.get('ce_side', 0); cr = ce.get('ce_cr', 0); ep = ce.get('ce_ep', 64)
    crs = ''.join(c for c, b in (('K', 1), ('Q', 2), ('k', 4), ('q', 8)) if cr & b) or '-'
    eps = '-' if ep >= 64 else 'abcdefgh'[ep & 7] + str((ep >> 3) + 1)
    hm = ce.get('ce_hm', 0); ply = ce.get('ce_ply', 1)
    full = max(1, (ply - 1) // 2 + 1)
    return '%s %s %s %s %d %d' % ('/'.join(rows), 'wb'[side & 1], crs, eps, hm, full)

def move_uci(mv, side=0):
    c = (mv >> 15) & 3
    if c == 1: return 'e1g1' if side == 0 else 'e8g8'
    if c == 2: return 'e1c1' if side == 0 else 'e8c8'
    f, t, p = mv & 63, (mv >> 6) & 63, (mv >> 12) & 7
    sq = lambda s: 'abcdefgh'[s & 7] + str((s >> 3) + 1)
    return sq(f) + sq(t) + ('  nbrq '[p].strip())
