"""Syntactic XOR-linearity check used to justify the indicator-table encoding of PIECE_HASH.

Claim needed: the key state computed by the encoded engine functions is an affine function over GF(2) of the
contents of PIECE_HASH (for fixed other inputs).  It holds if values loaded from the table (and from the key
fields they are accumulated in) only ever flow through xor / phi / select-as-value / load / store to key storage /
call arguments / return values, and never into a comparison, branch, switch, address computation or any other
arithmetic.  This module checks exactly that on the IR of the functions that are translated for a harness."""
import ll2c


def _vals(ins):
    for k, v in ins.__dict__.items():
        if isinstance(v, ll2c.V): yield k, v
        elif isinstance(v, list):
            for x in v:
                if isinstance(x, ll2c.V): yield k, x
                elif isinstance(x, tuple):
                    for y in x:
                        if isinstance(y, ll2c.V): yield k, y


def check(m, funcs, table, key_types=('%"class.engine::HashKey"',), extra_storage=(), key_fields=()):
    """funcs: IR names of the translated functions.  Returns list of violations (empty = linear)."""
    tainted_ret = set(); tainted_par = {}      # func -> set(param index)
    viol = []
    def is_key_ptr(fn, defs, v, depth=0):
        """pointer into key storage or the table?"""
        if v.kind == 'glob': return v.name == table or v.name in extra_storage
        if v.kind == 'cexpr' and v.op == 'gep': return is_key_ptr(fn, defs, v.base, depth + 1) or repr(v.bty) in key_types
        if v.kind == 'cexpr' and v.op == 'bitcast': return is_key_ptr(fn, defs, v.src, depth + 1)
        if v.kind == 'reg' and depth < 8:
            d = defs.get(v.name)
            if d is None:
                # parameter: key storage iff declared as pointer to a key type
                for (pty, pn) in fn.params:
                    if pn == v.name and isinstance(pty, ll2c.TPtr) and repr(pty.to) in key_types: return True
                return False
            if d.op == 'gep' and len(d.idx) > 1 and d.idx[1].kind == 'int' and (repr(d.bty), d.idx[1].val) in key_fields: return True
            if d.op == 'gep': return repr(d.bty) in key_types or is_key_ptr(fn, defs, d.base, depth + 1) or getattr(d, '_keyfield', False)
            if d.op == 'cast' and d.cop == 'bitcast': return is_key_ptr(fn, defs, d.src, depth + 1)
            if d.op == 'select': return is_key_ptr(fn, defs, d.a, depth + 1) and is_key_ptr(fn, defs, d.b, depth + 1)
            if d.op == 'phi': return all(is_key_ptr(fn, defs, x, depth + 1) for x, _ in d.inc if not (x.kind == 'reg' and x.name == v.name))
        return False
    changed = True; rounds = 0
    while changed and rounds < 20:
        changed = False; rounds += 1; viol = []
        for fname in funcs:
            fn = m.funcs[fname]
            if fn.decl: continue
            defs = {ins.res: ins for b in fn.blocks for ins in b.ins if ins.res}
            taint = set(fn.params[i][1] for i in tainted_par.get(fname, ()))
            grow = True
            while grow:
                grow = False
                for b in fn.blocks:
                    for ins in b.ins:
                        if not ins.res or ins.res in taint: continue
                        t = False
                        if ins.op == 'load': t = is_key_ptr(fn, defs, ins.ptr)
                        elif ins.op == 'bin' and ins.bop == 'xor': t = any(v.kind == 'reg' and v.name in taint for v in (ins.a, ins.b))
                        elif ins.op == 'phi': t = any(v.kind == 'reg' and v.name in taint for v, _ in ins.inc)
                        elif ins.op == 'select': t = any(v.kind == 'reg' and v.name in taint for v in (ins.a, ins.b))
                        elif ins.op in ('call', 'invoke') and ins.callee.kind == 'glob': t = ins.callee.name in tainted_ret
                        if t: taint.add(ins.res); grow = True
            for b in fn.blocks:
                for ins in b.ins:
                    for k, v in _vals(ins):
                        if not (v.kind == 'reg' and v.name in taint): continue
                        ok = False
                        if ins.op == 'bin' and ins.bop == 'xor': ok = True
                        elif ins.op == 'phi': ok = True
                        elif ins.op == 'select' and k in ('a', 'b'): ok = True
                        elif ins.op == 'ret':
                            ok = True
                            if fname not in tainted_ret: tainted_ret.add(fname); changed = True
                        elif ins.op == 'store' and k == 'val':
                            ok = is_key_ptr(fn, defs, ins.ptr)
                        elif ins.op in ('call', 'invoke') and k == 'args' and ins.callee.kind == 'glob' and ins.callee.name in funcs:
                            ok = True
                            idx = [i for i, a in enumerate(ins.args) if a is v]
                            for i in idx:
                                if i not in tainted_par.setdefault(ins.callee.name, set()): tainted_par[ins.callee.name].add(i); changed = True
                        if not ok: viol.append('%s: %s uses table-derived value %s as %s' % (fname, ins.op + (':' + getattr(ins, 'bop', '') if ins.op == 'bin' else ''), v.name, k))
    return viol
