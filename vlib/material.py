"""Material sets: concrete multisets of piece codes (1..6 white P N B R Q K, 7..12 black p n b r q k)."""
from itertools import combinations_with_replacement
LET = ' PNBRQKpnbrqk'
NONKING = [1, 2, 3, 4, 5, 7, 8, 9, 10, 11]

def name(mat):
    w = ''.join(LET[p] for p in mat if p <= 6 and p != 6); b = ''.join(LET[p] for p in mat if p > 6 and p != 12)
    return 'K' + w + 'k' + b

def M(k, allowed=NONKING, max_per_kind=10):
    out = []
    for extra in combinations_with_replacement(allowed, k - 2):
        if any(extra.count(x) > max_per_kind for x in set(extra)): continue
        out.append([6, 12] + list(extra))
    return out

def parse(s):
    """'KRRkp' -> [6,12,4,4,7]  (upper = white, lower = black; first K / k are the kings)"""
    w = [LET.index(c) for c in s if c.isupper() and c != 'K']; b = [LET.index(c) for c in s if c.islower() and c != 'k']
    return [6, 12] + w + b

def cinit(mat): return '{' + ','.join(str(x) for x in mat) + '}'
