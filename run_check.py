#!/usr/bin/env python3
"""usage: run_check.py <property id> [--tier quick|thorough] [--replay <path>]
exit 0: every discharged obligation held; 1: VIOLATION printed; 2: the check itself is broken."""
import sys, os, argparse, importlib, traceback
HERE = os.path.dirname(os.path.abspath(__file__))
sys.path.insert(0, os.path.join(HERE, 'vlib')); sys.path.insert(0, HERE)
from pipeline import Ctx, Broken


def main():
    ap = argparse.ArgumentParser()
    ap.add_argument('pid'); ap.add_argument('--tier', default=os.environ.get('VERIF_TIER', 'quick'), choices=['quick', 'thorough'])
    ap.add_argument('--replay'); ap.add_argument('--only', default=None, help='regex: run only matching queries (development aid)')
    a = ap.parse_args()
    pid = a.pid.upper()
    mod = importlib.import_module('checks.' + pid.lower())
    ctx = Ctx(pid, a.tier)
    ctx.only = a.only
    rc = 2
    try:
        if a.replay: rc = mod.replay_file(ctx, a.replay)
        else: rc = mod.check(ctx)
    except Broken as e:
        print('BROKEN: %s' % e, flush=True); rc = 2
    except Exception:
        traceback.print_exc(); rc = 2
    finally:
        ctx.cleanup()
    sys.exit(rc)

if __name__ == '__main__':
    main()
