/* Independent mailbox reference for the rules of chess (no bitboards, no engine code).
   piece codes: 0 empty, 1..6 white P N B R Q K, 7..12 black p n b r q k; squares a1=0..h8=63 */
#ifndef CHESS_SPEC_H
#define CHESS_SPEC_H
#include <stdint.h>
typedef struct { uint8_t b[64]; uint8_t side; uint8_t cr; uint8_t ep; } SBoard;   /* ep: 64 = none */
#define S_KIND(p) ((p) == 0 ? 0 : (((p) - 1) % 6) + 1)
#define S_COLOR(p) ((p) > 6)
static const int S_DR[8] = {1,-1,0,0, 1,1,-1,-1}, S_DF[8] = {0,0,1,-1, 1,-1,1,-1};
static const int S_NR[8] = {2,2,-2,-2,1,1,-1,-1}, S_NF[8] = {1,-1,1,-1,2,-2,2,-2};
/* is square sq attacked by a piece of colour `by` */
static int s_attacked(const SBoard *s, int sq, int by) {
  int r0 = sq >> 3, f0 = sq & 7;
  for (int d = 0; d < 8; d++) {
    int r = r0, f = f0;
    for (int k = 1; k <= 7; k++) {
      r += S_DR[d]; f += S_DF[d];
      if (r < 0 || r > 7 || f < 0 || f > 7) break;
      uint8_t p = s->b[r * 8 + f];
      if (p == 0) continue;
      if (S_COLOR(p) == by) {
        int kd = S_KIND(p);
        if (kd == 5) return 1;
        if (kd == 4 && d < 4) return 1;
        if (kd == 3 && d >= 4) return 1;
        if (kd == 6 && k == 1) return 1;
        /* pawn: white pawns attack upwards, so a white pawn attacking sq sits one rank below */
        if (kd == 1 && k == 1 && d >= 4 && S_DR[d] == (by == 0 ? -1 : 1)) return 1;
      }
      break;
    }
  }
  for (int j = 0; j < 8; j++) {
    int r = r0 + S_NR[j], f = f0 + S_NF[j];
    if (r < 0 || r > 7 || f < 0 || f > 7) continue;
    uint8_t p = s->b[r * 8 + f];
    if (p != 0 && S_COLOR(p) == by && S_KIND(p) == 2) return 1;
  }
  return 0;
}
/* ---- second, bit-parallel formulation of "is sq attacked by colour `by`" (super-piece method on bitboards derived
   from the mailbox).  Independent of the engine; equivalent to s_attacked (proved by the lemma query of C07). */
#define SB_NOT_A 0xfefefefefefefefeULL
#define SB_NOT_H 0x7f7f7f7f7f7f7f7fULL
static uint64_t sb_fill(uint64_t g, uint64_t empty, int sh, uint64_t wrap) {
  uint64_t a = 0;
  for (int i = 0; i < 7; i++) { g = (sh > 0 ? (g << sh) : (g >> -sh)) & wrap; a |= g; g &= empty; }
  return a;
}
static int s_attacked_bb(const SBoard *s, int sq, int by) {
  uint64_t occ = 0, P = 0, N = 0, B = 0, R = 0, Q = 0, K = 0;
  int base = by ? 6 : 0;
  for (int i = 0; i < 64; i++) {
    uint8_t p = s->b[i]; uint64_t bit = 1ULL << i;
    if (p) occ |= bit;
    if (p == base + 1) P |= bit; if (p == base + 2) N |= bit; if (p == base + 3) B |= bit;
    if (p == base + 4) R |= bit; if (p == base + 5) Q |= bit; if (p == base + 6) K |= bit;
  }
  uint64_t t = 1ULL << (sq & 63), e = ~occ;
  /* pawns of colour `by` attacking t: a white pawn attacks upwards, so it sits one rank below t */
  uint64_t pa = by == 0 ? (((t >> 7) & SB_NOT_A) | ((t >> 9) & SB_NOT_H)) : (((t << 7) & SB_NOT_H) | ((t << 9) & SB_NOT_A));
  if (pa & P) return 1;
  uint64_t l1 = (t >> 1) & SB_NOT_H, l2 = (t >> 2) & 0x3f3f3f3f3f3f3f3fULL, r1 = (t << 1) & SB_NOT_A, r2 = (t << 2) & 0xfcfcfcfcfcfcfcfcULL;
  uint64_t h1 = l1 | r1, h2 = l2 | r2;
  uint64_t kn = (h1 << 16) | (h1 >> 16) | (h2 << 8) | (h2 >> 8);
  if (kn & N) return 1;
  uint64_t row = t | l1 | r1; uint64_t ka = (row | (row << 8) | (row >> 8)) & ~t;
  if (ka & K) return 1;
  uint64_t diag = sb_fill(t, e, 9, SB_NOT_A) | sb_fill(t, e, 7, SB_NOT_H) | sb_fill(t, e, -7, SB_NOT_A) | sb_fill(t, e, -9, SB_NOT_H);
  if (diag & (B | Q)) return 1;
  uint64_t orth = sb_fill(t, e, 8, ~0ULL) | sb_fill(t, e, -8, ~0ULL) | sb_fill(t, e, 1, SB_NOT_A) | sb_fill(t, e, -1, SB_NOT_H);
  if (orth & (R | Q)) return 1;
  return 0;
}
#ifdef S_USE_BITBOARD_ORACLE
#define S_ATTACKED s_attacked_bb
#else
#define S_ATTACKED s_attacked
#endif
static int s_king_sq(const SBoard *s, int color) {
  int k = 64;
  for (int i = 0; i < 64; i++) if (s->b[i] == (color ? 12 : 6)) k = i;
  return k;
}
static int s_path_clear(const SBoard *s, int from, int to) {   /* from,to on a common line, exclusive */
  int dr = (to >> 3) - (from >> 3), df = (to & 7) - (from & 7);
  int sr = dr > 0 ? 1 : dr < 0 ? -1 : 0, sf = df > 0 ? 1 : df < 0 ? -1 : 0;
  int r = (from >> 3) + sr, f = (from & 7) + sf;
  for (int k = 0; k < 6; k++) {
    if (r == (to >> 3) && f == (to & 7)) break;
    if (s->b[r * 8 + f] != 0) return 0;
    r += sr; f += sf;
  }
  return 1;
}
/* a move in "abstract" form: castle = 0 none, 1 king side, 2 queen side */
typedef struct { uint8_t from, to, promo, castle; } SMove;
/* apply a pseudo-legal move; returns captured piece code */
static void s_apply(const SBoard *s, SMove m, SBoard *o) {
  *o = *s;
  int us = s->side;
  o->side = 1 - us; o->ep = 64;
  if (m.castle) {
    int r = us ? 56 : 0;
    o->b[r + 4] = 0;
    if (m.castle == 1) { o->b[r + 6] = us ? 12 : 6; o->b[r + 7] = 0; o->b[r + 5] = us ? 10 : 4; }
    else               { o->b[r + 2] = us ? 12 : 6; o->b[r + 0] = 0; o->b[r + 3] = us ? 10 : 4; }
    o->cr &= us ? 3 : 12;
    return;
  }
  uint8_t p = s->b[m.from]; int kd = S_KIND(p);
  o->b[m.from] = 0;
  if (kd == 1 && m.to == s->ep) o->b[us ? m.to + 8 : m.to - 8] = 0;
  o->b[m.to] = m.promo ? (uint8_t)(m.promo + (us ? 6 : 0)) : p;
  if (kd == 1 && ((m.to > m.from ? m.to - m.from : m.from - m.to) == 16)) o->ep = (uint8_t)((m.from + m.to) / 2);
  if (kd == 6) o->cr &= us ? 3 : 12;
  if (m.from == 7 || m.to == 7) o->cr &= ~1;
  if (m.from == 0 || m.to == 0) o->cr &= ~2;
  if (m.from == 63 || m.to == 63) o->cr &= ~4;
  if (m.from == 56 || m.to == 56) o->cr &= ~8;
}
static int s_pseudo_legal(const SBoard *s, SMove m) {
  int us = s->side;
  if (m.castle) {
    if (m.castle > 2 || m.from || m.to || m.promo) return 0;
    int r = us ? 56 : 0;
    int right = m.castle == 1 ? (us ? 4 : 1) : (us ? 8 : 2);
    if (!(s->cr & right)) return 0;
    if (s->b[r + 4] != (us ? 12 : 6)) return 0;
    if (m.castle == 1) { if (s->b[r + 7] != (us ? 10 : 4) || s->b[r + 5] || s->b[r + 6]) return 0; }
    else               { if (s->b[r + 0] != (us ? 10 : 4) || s->b[r + 1] || s->b[r + 2] || s->b[r + 3]) return 0; }
    if (S_ATTACKED(s, r + 4, 1 - us)) return 0;
    if (S_ATTACKED(s, m.castle == 1 ? r + 5 : r + 3, 1 - us)) return 0;
    /* destination square is covered by the generic own-king-safe test in s_legal */
    return 1;
  }
  if (m.from > 63 || m.to > 63 || m.from == m.to) return 0;
  uint8_t p = s->b[m.from], t = s->b[m.to];
  if (p == 0 || S_COLOR(p) != us) return 0;
  if (t != 0 && (S_COLOR(t) == us || S_KIND(t) == 6)) return 0;
  int kd = S_KIND(p);
  int dr = (m.to >> 3) - (m.from >> 3), df = (m.to & 7) - (m.from & 7);
  int adr = dr < 0 ? -dr : dr, adf = df < 0 ? -df : df;
  if (kd != 1 && m.promo) return 0;
  switch (kd) {
  case 2: return (adr == 1 && adf == 2) || (adr == 2 && adf == 1);
  case 3: return adr == adf && s_path_clear(s, m.from, m.to);
  case 4: return (adr == 0 || adf == 0) && s_path_clear(s, m.from, m.to);
  case 5: return (adr == adf || adr == 0 || adf == 0) && s_path_clear(s, m.from, m.to);
  case 6: return adr <= 1 && adf <= 1;
  case 1: {
    int fwd = us ? -1 : 1, last = us ? 0 : 7, start = us ? 6 : 1;
    int ok = 0;
    if (df == 0 && dr == fwd && t == 0) ok = 1;
    if (df == 0 && dr == 2 * fwd && (m.from >> 3) == start && t == 0 && s->b[m.from + 8 * fwd] == 0) ok = 1;
    if (adf == 1 && dr == fwd && (t != 0 || (m.to == s->ep && s->ep != 64))) ok = 1;
    if (!ok) return 0;
    if ((m.to >> 3) == last) return m.promo >= 2 && m.promo <= 5;
    return m.promo == 0;
  }
  }
  return 0;
}
static int s_legal(const SBoard *s, SMove m) {
  if (!s_pseudo_legal(s, m)) return 0;
  SBoard o; s_apply(s, m, &o);
  return !S_ATTACKED(&o, s_king_sq(&o, s->side), 1 - s->side);
}
#endif
