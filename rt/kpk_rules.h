/* Rules of king+pawn vs king on a canonical board (White owns the pawn), written from the rules of chess.
   Shared by the native retrograde solver (witness generator) and the CBMC harness (checker). */
#ifndef KPK_RULES_H
#define KPK_RULES_H
#include <stdint.h>
typedef struct { uint8_t stm, wk, wp, bk; } KP;      /* stm: 0 white, 1 black */
static int kp_dist(int a, int b) { int dr = (a >> 3) - (b >> 3), df = (a & 7) - (b & 7); if (dr < 0) dr = -dr; if (df < 0) df = -df; return dr > df ? dr : df; }
static int kp_pawn_attacks(int wp, int sq) { int dr = (sq >> 3) - (wp >> 3), df = (sq & 7) - (wp & 7); return dr == 1 && (df == 1 || df == -1); }
static int kp_legal(KP p) {
  if (p.wk > 63 || p.bk > 63 || p.wp < 8 || p.wp > 55 || p.stm > 1) return 0;
  if (p.wk == p.bk || p.wk == p.wp || p.bk == p.wp) return 0;
  if (kp_dist(p.wk, p.bk) <= 1) return 0;
  if (p.stm == 0 && kp_pawn_attacks(p.wp, p.bk)) return 0;     /* side not to move must not be in check */
  return 1;
}
static const int KP_DR[8] = {1,1,1,0,0,-1,-1,-1}, KP_DF[8] = {-1,0,1,-1,1,-1,0,1};
/* is square t attacked by a white queen/rook standing on x, with the white king on wk as the only possible blocker */
static int kp_line_attack(int x, int t, int wk, int queen) {
  if (x == t) return 0;
  int dr = (t >> 3) - (x >> 3), df = (t & 7) - (x & 7);
  int adr = dr < 0 ? -dr : dr, adf = df < 0 ? -df : df;
  int straight = dr == 0 || df == 0, diag = adr == adf;
  if (!(straight || (queen && diag))) return 0;
  int sr = dr > 0 ? 1 : dr < 0 ? -1 : 0, sf = df > 0 ? 1 : df < 0 ? -1 : 0;
  int r = (x >> 3) + sr, f = (x & 7) + sf;
  for (int k = 0; k < 7; k++) {
    int q = r * 8 + f;
    if (q == t) return 1;
    if (q == wk) return 0;
    r += sr; f += sf;
  }
  return 0;
}
/* White to move with the pawn on the 7th: promoting to a queen or a rook that cannot be captured at once and does not
   stalemate wins (KQK and KRK are won).  Trusted chess knowledge; the only axiom of the certificate. */
static int kp_promo_wins(KP p) {
  if (p.stm != 0 || (p.wp >> 3) != 6) return 0;
  int x = p.wp + 8;
  if (x == p.wk || x == p.bk) return 0;
  if (kp_dist(x, p.bk) <= 1 && kp_dist(x, p.wk) > 1) return 0;          /* captured at once */
  for (int queen = 1; queen >= 0; queen--) {
    /* black to move: has a legal king move, or is in check (then not stalemate) */
    int incheck = kp_line_attack(x, p.bk, p.wk, queen);
    int moves = 0;
    for (int d = 0; d < 8; d++) {
      int r = (p.bk >> 3) + KP_DR[d], f = (p.bk & 7) + KP_DF[d];
      if (r < 0 || r > 7 || f < 0 || f > 7) continue;
      int t = r * 8 + f;
      if (kp_dist(t, p.wk) <= 1) continue;
      if (t == x) continue;                                               /* not capturable (checked above) => defended */
      /* the black king leaves its square; the line through it stays attacked: x-ray handled because the king is not a blocker */
      if (kp_line_attack(x, t, p.wk, queen)) continue;
      moves++;
    }
    if (incheck || moves > 0) return 1;
  }
  return 0;
}
#define KP_IDX(stm, wk, wp, bk) ((uint32_t)(wk) | ((uint32_t)(bk) << 6) | ((uint32_t)(stm) << 12) | ((uint32_t)((wp) & 7) << 13) | ((uint32_t)(((wp) >> 3) - 1) << 16))
/* index over all 8 files (the certificate does not use the engine's file folding): 2*8*6*64*64 = 393216 entries */
#define KP_NIDX (1u << 19)
#endif
