#ifndef LL2C_RT_H
#define LL2C_RT_H
#include <stdint.h>
#include <stddef.h>
#include <string.h>
#include <math.h>
#ifdef __CPROVER__
#define LL2C_UNREACHABLE() __CPROVER_assert(0, "ll2c: reached 'unreachable'")
#define LL2C_EXCEPTION_PATH() __CPROVER_assume(0)
#define LL2C_ASSUME(c) __CPROVER_assume(c)
#define LL2C_SHCHK(b, n) __CPROVER_assert((b) < (n), "ll2c: shift amount >= width (UB)")
#define LL2C_ASSUME_OR_ASSERT(c) __CPROVER_assert(c, "ll2c: typed copy length is a multiple of the element size")
#else
#include <stdlib.h>
#define LL2C_UNREACHABLE() abort()
#define LL2C_EXCEPTION_PATH() abort()
#define LL2C_ASSUME(c) ((void)0)
#define LL2C_SHCHK(b, n) ((void)0)
#define LL2C_ASSUME_OR_ASSERT(c) ((void)0)
#endif
static inline uint32_t ll2c_shl32(uint32_t a, uint32_t b, int n) { LL2C_SHCHK(b, (uint32_t)n); return a << (b & 31); }
static inline uint64_t ll2c_shl64(uint64_t a, uint64_t b, int n) { LL2C_SHCHK(b, (uint64_t)n); return a << (b & 63); }
static inline uint32_t ll2c_lshr32(uint32_t a, uint32_t b, int n) { LL2C_SHCHK(b, (uint32_t)n); return a >> (b & 31); }
static inline uint64_t ll2c_lshr64(uint64_t a, uint64_t b, int n) { LL2C_SHCHK(b, (uint64_t)n); return a >> (b & 63); }
static inline int32_t ll2c_ashr32(int32_t a, uint32_t b, int n) { LL2C_SHCHK(b, (uint32_t)n); return a >> (b & 31); }
static inline int64_t ll2c_ashr64(int64_t a, uint64_t b, int n) { LL2C_SHCHK(b, (uint64_t)n); return a >> (b & 63); }
#define LL2C_SHL32(a,b,n) ll2c_shl32(a,b,n)
#define LL2C_SHL64(a,b,n) ll2c_shl64(a,b,n)
#define LL2C_LSHR32(a,b,n) ll2c_lshr32(a,b,n)
#define LL2C_LSHR64(a,b,n) ll2c_lshr64(a,b,n)
#define LL2C_ASHR32(a,b,n) ll2c_ashr32(a,b,n)
#define LL2C_ASHR64(a,b,n) ll2c_ashr64(a,b,n)
static inline uint64_t ll2c_popcount(uint64_t x) { return (uint64_t)__builtin_popcountll(x); }
#define LL2C_POPCOUNT(x) ll2c_popcount((uint64_t)(x))
static inline uint64_t ll2c_cttz64(uint64_t x) { return x ? (uint64_t)__builtin_ctzll(x) : 64; }
static inline uint32_t ll2c_cttz32(uint32_t x) { return x ? (uint32_t)__builtin_ctz(x) : 32; }
static inline uint64_t ll2c_ctlz64(uint64_t x) { return x ? (uint64_t)__builtin_clzll(x) : 64; }
static inline uint32_t ll2c_ctlz32(uint32_t x) { return x ? (uint32_t)__builtin_clz(x) : 32; }
#define LL2C_CTTZ64(x) ll2c_cttz64(x)
#define LL2C_CTTZ32(x) ll2c_cttz32(x)
#define LL2C_CTLZ64(x) ll2c_ctlz64(x)
#define LL2C_CTLZ32(x) ll2c_ctlz32(x)
/* floating-point binary operations: precise IEEE by default; with -DLL2C_FP_ABSTRACT every double operation is a call of a
   contract function supplied by the harness (assume/guarantee at the level of single IEEE operations) */
#ifdef LL2C_FP_ABSTRACT
double ll2c_abs_fadd(double, double); double ll2c_abs_fsub(double, double); double ll2c_abs_fmul(double, double); double ll2c_abs_fdiv(double, double);
#define LL2C_FADD(a,b) ll2c_abs_fadd(a,b)
#define LL2C_FSUB(a,b) ll2c_abs_fsub(a,b)
#define LL2C_FMUL(a,b) ll2c_abs_fmul(a,b)
#define LL2C_FDIV(a,b) ll2c_abs_fdiv(a,b)
#else
#define LL2C_FADD(a,b) ((a) + (b))
#define LL2C_FSUB(a,b) ((a) - (b))
#define LL2C_FMUL(a,b) ((a) * (b))
#define LL2C_FDIV(a,b) ((a) / (b))
#endif
#ifdef LL2C_FP_ABSTRACT
#define LL2C_FADDF(a,b) ((float)ll2c_abs_fadd(a,b))
#define LL2C_FSUBF(a,b) ((float)ll2c_abs_fsub(a,b))
#define LL2C_FMULF(a,b) ((float)ll2c_abs_fmul(a,b))
#define LL2C_FDIVF(a,b) ((float)ll2c_abs_fdiv(a,b))
#else
#define LL2C_FADDF(a,b) ((a) + (b))
#define LL2C_FSUBF(a,b) ((a) - (b))
#define LL2C_FMULF(a,b) ((a) * (b))
#define LL2C_FDIVF(a,b) ((a) / (b))
#endif
/* llvm.memset: with -DLL2C_SKIP_BIG_ZEROING a zero-fill of more than 16 KB is skipped -- only for harnesses whose object
   under construction is a zero-initialised static (the constructor of the 2.8 MB Search object value-initialises its
   tables first thing); stated as a cut in the evidence of those checks */
#ifdef LL2C_SKIP_BIG_ZEROING
#define LL2C_MEMSET(p, v, n) do { if (!((n) > 16384 && (v) == 0)) memset(p, v, n); } while (0)
#else
#define LL2C_MEMSET(p, v, n) memset(p, v, n)
#endif
#endif
