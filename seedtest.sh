#!/bin/bash
# usage: seedtest.sh <seed dir name> <tier> <check ids...>   -- applies the seeded patch to /repo, runs the checks, reverts
s=$1; tier=$2; shift 2
cd /repo || exit 2
git diff --quiet || { echo "/repo not clean"; exit 2; }
git apply /verif/seeded/$s/patch.diff || { echo "patch does not apply"; exit 2; }
mkdir -p /tmp/seedlogs
for id in "$@"; do
  cp /verif/evidence/$id.json /tmp/seedlogs/.evidence_$id.bak 2>/dev/null    # evidence files describe runs on the unchanged tree: keep them across a seeded run
  python3 /verif/run_check.py $id --tier $tier > /tmp/seedlogs/${s}_${id}_${tier}.log 2>&1; rc=$?
  [ -f /tmp/seedlogs/.evidence_$id.bak ] && mv /tmp/seedlogs/.evidence_$id.bak /verif/evidence/$id.json
  echo "$(date +%H:%M) seed=$s check=$id tier=$tier rc=$rc $(grep -h 'VIOLATION\|KNOWN-FINDING\|BROKEN' /tmp/seedlogs/${s}_${id}_${tier}.log | head -3 | tr '\n' '|')" >> /tmp/seedlogs/summary.txt
done
git -C /repo checkout -- .
